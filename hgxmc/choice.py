"""E3: stateless choice-point explorer (owning every random source).

A harness body `run(ch)` calls real library code whose random sources have been replaced by fakes
that ask `ch.choose(n, label)` for every answer.  `explore` enumerates choice scripts depth-first:
an execution replays its script prefix and then answers 0 (the default = the "nothing happens"
outcome) at every later point; children deviate at exactly one later point.  Every complete choice
sequence is therefore executed exactly once.  With `max_dev=D` only sequences with at most D non-default
answers at cost-1 points are executed (cost-0 points are always enumerated completely).
"""
import contextlib
import itertools


class UnownedRandomness(Exception):
    """the code under test reached a random API the fakes do not model -> harness error"""


class Pruned(Exception):
    """execution exceeded a per-label call budget / horizon: counted, never reported"""


class ReplayDivergence(Exception):
    pass


class Chooser:
    def __init__(self, script=(), budgets=None, horizon=None):
        self.script = tuple(script)
        self.taken = []
        self.trace = []  # (n, label, cost)
        self.budgets = budgets or {}
        self.calls = {}
        self.horizon = horizon

    def choose(self, n, label, cost=1):
        if n < 1:
            raise UnownedRandomness("empty answer set at %s" % label)
        c = self.calls.get(label, 0) + 1
        self.calls[label] = c
        b = self.budgets.get(label)
        if b is not None and c > b:
            raise Pruned(label)
        if self.horizon is not None and len(self.taken) >= self.horizon:
            raise Pruned("horizon")
        i = len(self.taken)
        if i < len(self.script):
            a = self.script[i]
            if a >= n:
                raise ReplayDivergence("scripted answer %d out of range %d at point %d (%s)" % (a, n, i, label))
        else:
            a = 0
        self.taken.append(a)
        self.trace.append((n, label, cost))
        return a

    def forced(self, label):
        """a point with a single possible answer is not a choice point (kept for the seam record)"""
        return 0


def explore(run, max_dev=None, budgets=None, horizon=None, max_exec=None, stats=None):
    """yield (script, result, chooser) for every execution; result is None for pruned executions.

    run(ch) -> result.  Deterministic given the script."""
    stack = [((), 0)]
    n = 0
    while stack:
        script, dev = stack.pop()
        ch = Chooser(script, budgets, horizon)
        pruned = False
        try:
            res = run(ch)
        except Pruned:
            res = None
            pruned = True
        n += 1
        yield (tuple(ch.taken), res, ch, pruned)
        if max_exec is not None and n >= max_exec and stack:
            # execution budget exhausted: stop here and SAY so (the caller reports the run as capped, not exhaustive)
            if stats is not None:
                stats["capped"] = stats.get("capped", 0) + 1
                stats["unexplored_branches"] = stats.get("unexplored_branches", 0) + len(stack)
            return
        # children: deviate at one later point
        base = len(script)
        for i in range(len(ch.trace) - 1, base - 1, -1):
            nn, label, cost = ch.trace[i]
            if nn <= 1:
                continue
            d2 = dev + cost
            if max_dev is not None and cost and d2 > max_dev:
                continue
            prefix = tuple(ch.taken[:i])
            for alt in range(nn - 1, 0, -1):
                stack.append((prefix + (alt,), d2))


# ---------------------------------------------------------------------------------------------
class CoinFloat:
    """A uniform draw u in [0,1) that the program may only *compare* with numbers.

    Each comparison whose outcome is not forced by u in [lo, hi) is a binary choice point.
    Default answer (0): u is "large" -> `u < x` is False (no infection / no activation / reject)."""

    __array_priority__ = 1000

    def __init__(self, ch, label="coin", cost=1):
        self.ch, self.label, self.cost = ch, label, cost
        self.lo, self.hi = 0.0, 1.0

    def _lt(self, x):  # u < x
        x = float(x)
        if x <= self.lo:
            return False
        if x >= self.hi:
            return True
        a = self.ch.choose(2, self.label + "<%g" % x, self.cost)
        if a == 1:
            self.hi = x
            return True
        self.lo = x
        return False

    def __lt__(self, x):
        return self._lt(x)

    def __le__(self, x):
        return self._lt(x)  # P(u == x) = 0

    def __gt__(self, x):
        return not self._lt(x)

    def __ge__(self, x):
        return not self._lt(x)

    def _no(self, *a, **k):
        raise UnownedRandomness("arithmetic on a uniform draw (%s) - the harness only owns comparisons" % self.label)

    __add__ = __radd__ = __sub__ = __rsub__ = __mul__ = __rmul__ = __truediv__ = __rtruediv__ = __float__ = __int__ = _no
    __eq__ = __ne__ = __hash__ = _no  # noqa


def subsets_k(n, k):
    return list(itertools.combinations(range(n), k))


class Fake:
    """base: any attribute we do not model is unowned randomness"""

    def __getattr__(self, name):
        if name.startswith("__"):
            raise AttributeError(name)
        raise UnownedRandomness("%s.%s is not modelled by the harness" % (type(self).__name__, name))


class FakeStdRandom(Fake):
    """stands in for the stdlib `random` module inside one library module"""

    def __init__(self, ch, log=None):
        self.ch = ch
        self.log = log if log is not None else []
        self.seeded = None

    def seed(self, s=None):
        self.seeded = s
        self.log.append(("seed", s))

    def random(self):
        self.log.append(("random",))
        return CoinFloat(self.ch, "std.random")

    def randint(self, a, b):
        return a + self.ch.choose(b - a + 1, "std.randint")

    def randrange(self, a, b=None):
        if b is None:
            a, b = 0, a
        return a + self.ch.choose(b - a, "std.randrange")

    def choice(self, seq):
        seq = list(seq)
        return seq[self.ch.choose(len(seq), "std.choice")]

    def sample(self, population, k):
        pop = list(population)
        if k > len(pop) or k < 0:
            raise ValueError("Sample larger than population or is negative")
        combos = subsets_k(len(pop), k)
        # every k-subset; ordered k-tuples when there are few of them
        if len(combos) * _fact(k) <= 24:
            perms = [p for c in combos for p in itertools.permutations(c)]
            idx = perms[self.ch.choose(len(perms), "std.sample")]
        else:
            idx = combos[self.ch.choose(len(combos), "std.sample")]
        return [pop[i] for i in idx]

    def shuffle(self, x):
        n = len(x)
        perms = list(itertools.permutations(range(n)))
        p = perms[self.ch.choose(len(perms), "std.shuffle")]
        x[:] = [x[i] for i in p]

    def uniform(self, a, b):
        if (a, b) == (0, 1) or (a, b) == (0.0, 1.0):
            return CoinFloat(self.ch, "std.uniform")
        raise UnownedRandomness("random.uniform(%r, %r) is not modelled" % (a, b))

    def choices(self, population, weights=None, *, cum_weights=None, k=1):
        pop = list(population)
        idx = list(range(len(pop)))
        if weights is not None:
            idx = [i for i in idx if list(weights)[i] > 0]
        return [pop[idx[self.ch.choose(len(idx), "std.choices")]] for _ in range(k)]

    def getrandbits(self, k):
        if k > 4:
            raise UnownedRandomness("random.getrandbits(%d) is not modelled" % k)
        return self.ch.choose(2 ** k, "std.getrandbits")


def _fact(k):
    r = 1
    for i in range(2, k + 1):
        r *= i
    return r


class NumpyShim:
    """forwards everything to real numpy except `.random`"""

    def __init__(self, real, random):
        self.__dict__["_real"] = real
        self.__dict__["random"] = random

    def __getattr__(self, name):
        return getattr(self._real, name)


@contextlib.contextmanager
def patched(module, **names):
    """replace module-level names for the duration of a with-block"""
    old = {}
    missing = object()
    for k, v in names.items():
        old[k] = module.__dict__.get(k, missing)
        module.__dict__[k] = v
    try:
        yield
    finally:
        for k, v in old.items():
            if v is missing:
                del module.__dict__[k]
            else:
                module.__dict__[k] = v


class FakeNumpyRandom(Fake):
    """stands in for `np.random` (legacy global API) inside one library module"""

    def __init__(self, ch, real_np, menus=None, log=None):
        self.ch = ch
        self.np = real_np
        self.menus = menus or {}
        self.log = log if log is not None else []
        self._scalar_i = 0

    def seed(self, s=None):
        self.log.append(("np.seed", s))

    def _scalar(self, label):
        """a scalar uniform draw: comparison-only coin by default; with a 'scalar_seq' menu (a vector drawn one entry at a
        time instead of through one array call) the next entry of that sequence"""
        seq = self.menus.get("scalar_seq")
        if seq is None:
            return CoinFloat(self.ch, label)
        if self._scalar_i >= len(seq):
            raise UnownedRandomness("%s: more scalar draws than the scripted vector has entries" % label)
        self._scalar_i += 1
        return float(seq[self._scalar_i - 1])

    def random(self, size=None):
        if size is None:
            return self._scalar("np.random")
        return self._menu("random", size)

    def rand(self, *shape):
        if not shape:
            return self._scalar("np.rand")
        return self._menu("rand", shape)

    def randn(self, *shape):
        """standard normal draws: a menu ('randn'), or the rand-menu with both signs (a normal variate can be negative)"""
        if "randn" in self.menus:
            return self._menu("randn", shape)
        m = self.menus.get("rand")
        if m is None or not shape:
            raise UnownedRandomness("np.random.randn%r needs a value menu" % (shape,))
        opts = m(shape) if callable(m) else m
        opts = [list(o) for o in opts] + [[-x for x in o] for o in opts]
        return self.np.array(opts[self.ch.choose(len(opts), "np.randn-menu")], dtype=float)

    def randint(self, low, high=None, size=None):
        if high is None:
            low, high = 0, low
        n = int(high) - int(low)
        if size is None:
            return int(low) + self.ch.choose(n, "np.randint")
        k = int(size) if not isinstance(size, tuple) else int(self.np.prod(size))
        vals = [int(low) + self.ch.choose(n, "np.randint", 1 if i == 0 else 0) for i in range(k)]
        return self.np.array(vals).reshape(size)

    def choice(self, a, size=None, replace=True, p=None):
        pop = list(range(a)) if isinstance(a, (int, self.np.integer)) else list(a)
        idx = list(range(len(pop)))
        if p is not None:
            p = list(p)
            idx = [i for i in idx if p[i] > 0]
        if size is None:
            return pop[idx[self.ch.choose(len(idx), "np.choice")]]
        k = int(size)
        if replace:
            out = [pop[idx[self.ch.choose(len(idx), "np.choice")]] for _ in range(k)]
            return self.np.array(out)
        if k > len(idx):
            raise ValueError("Cannot take a larger sample than population when 'replace=False'")
        combos = subsets_k(len(idx), k)
        if len(combos) * _fact(k) <= 24:
            perms = [q for c in combos for q in itertools.permutations(c)]
            sel = perms[self.ch.choose(len(perms), "np.choice-noreplace")]
        else:
            sel = combos[self.ch.choose(len(combos), "np.choice-noreplace")]
        return self.np.array([pop[idx[i]] for i in sel])

    def permutation(self, x):
        n = int(x) if isinstance(x, (int, self.np.integer)) else len(x)
        base = list(range(n)) if isinstance(x, (int, self.np.integer)) else list(x)
        perms = list(itertools.permutations(range(n)))
        p = perms[self.ch.choose(len(perms), "np.permutation")]
        return self.np.array([base[i] for i in p])

    def shuffle(self, x):
        n = len(x)
        perms = list(itertools.permutations(range(n)))
        p = perms[self.ch.choose(len(perms), "np.shuffle")]
        vals = [x[i] for i in p]
        for i, v in enumerate(vals):
            x[i] = v

    def _menu(self, name, shape):
        m = self.menus.get(name)
        if m is None:
            raise UnownedRandomness("np.random.%s%r needs a value menu" % (name, shape))
        opts = m(shape) if callable(m) else m
        return self.np.array(opts[self.ch.choose(len(opts), "np." + name + "-menu")], dtype=float)

    def exponential(self, scale=1.0, size=None):
        return self._menu("exponential", size)

    def random_sample(self, size=None):
        return self.random(size)

    def sample(self, size=None):
        return self.random(size)

    def ranf(self, size=None):
        return self.random(size)

    def binomial(self, n, p, size=None):
        if size is not None or int(n) > 6:
            raise UnownedRandomness("np.random.binomial(n=%r, size=%r) is not modelled" % (n, size))
        lo = int(n) if p >= 1 else 0
        hi = 0 if p <= 0 else int(n)
        return lo + self.ch.choose(hi - lo + 1, "np.binomial")

    def uniform(self, low=0.0, high=1.0, size=None):
        if size is None:
            if (low, high) == (0.0, 1.0):
                return self._scalar("np.uniform")
            raise UnownedRandomness("np.random.uniform(%r, %r) scalar" % (low, high))
        return self._menu("uniform", size)


class FakeGenerator(Fake):
    """stands in for a numpy Generator (default_rng(seed)) stored on an object.

    menus: {"random": fn(shape)->list of arrays, "exponential": fn(scale, size)->list, "normal": fn(loc, scale)->list,
            "poisson": fn(lam)->list}; integer draws are enumerated completely."""

    def __init__(self, ch, real_np, menus=None, tag="rng", seed=None, registry=None):
        self.ch = ch
        self.np = real_np
        self.menus = menus or {}
        self.tag = tag
        self.seed = seed
        self.draws = 0
        self.registry = registry

    def spawn(self, n_children):
        """child generators derived from this one: seeded exactly when the parent is"""
        kids = []
        for i in range(int(n_children)):
            g = FakeGenerator(self.ch, self.np, self.menus, tag="%s.spawn%d" % (self.tag, i), seed=self.seed, registry=self.registry)
            if self.registry is not None:
                self.registry.append(g)
            kids.append(g)
        return kids

    def _menu(self, name, *args):
        m = self.menus.get(name)
        if m is None:
            raise UnownedRandomness("%s.%s%r needs a value menu" % (self.tag, name, args))
        opts = m(*args)
        self.draws += 1
        if len(opts) == 1:
            return self.np.array(opts[0], dtype=float)
        return self.np.array(opts[self.ch.choose(len(opts), "%s.%s-menu" % (self.tag, name))], dtype=float)

    def random(self, size=None, *more):
        if size is None:
            self.draws += 1
            return CoinFloat(self.ch, self.tag + ".random")
        return self._menu("random", (size,) + more if more or not isinstance(size, tuple) else size)

    def exponential(self, scale=1.0, size=None):
        return self._menu("exponential", scale, size)

    def normal(self, loc=0.0, scale=1.0, size=None):
        return self._menu("normal", loc, scale)

    def standard_exponential(self, size=None, *a, **k):
        """unit-mean exponential draws: the 'exponential' menu asked for scale 1 of the requested shape"""
        if "standard_exponential" in self.menus:
            return self._menu("standard_exponential", size)
        if size is None:
            raise UnownedRandomness("%s.standard_exponential() scalar draw needs a value menu" % self.tag)
        return self._menu("exponential", self.np.ones(size), size)

    def poisson(self, lam=1.0, size=None):
        r = self._menu("poisson", lam)
        return r.astype(int)

    def integers(self, low, high=None, size=None, endpoint=False):
        if high is None:
            low, high = 0, low
        n = int(high) - int(low) + (1 if endpoint else 0)
        self.draws += 1
        if size is None:
            return int(low) + self.ch.choose(n, self.tag + ".integers")
        k = int(size) if not isinstance(size, tuple) else int(self.np.prod(size))
        vals = [int(low) + self.ch.choose(n, self.tag + ".integers", 1 if i == 0 else 0) for i in range(k)]
        return self.np.array(vals).reshape(size)

    def choice(self, a, size=None, replace=True, p=None, shuffle=True):
        pop = list(range(a)) if isinstance(a, (int, self.np.integer)) else list(a)
        idx = list(range(len(pop)))
        if p is not None:
            idx = [i for i in idx if list(p)[i] > 0]
        self.draws += 1
        if size is None:
            return pop[idx[self.ch.choose(len(idx), self.tag + ".choice")]]
        k = int(size)
        if replace:
            return self.np.array([pop[idx[self.ch.choose(len(idx), self.tag + ".choice")]] for _ in range(k)])
        if k > len(idx):
            raise ValueError("Cannot take a larger sample than population when replace is False")
        combos = subsets_k(len(idx), k)
        if len(combos) * _fact(k) <= 24:
            combos = [q for c in combos for q in itertools.permutations(c)]  # ordered k-tuples when there are few
        sel = combos[self.ch.choose(len(combos), self.tag + ".choice-noreplace")]
        return self.np.array([pop[idx[i]] for i in sel])

    def uniform(self, low=0.0, high=1.0, size=None):
        if size is None and (low, high) == (0.0, 1.0):
            self.draws += 1
            return CoinFloat(self.ch, self.tag + ".uniform")
        if (low, high) == (0.0, 1.0):
            return self._menu("random", size if isinstance(size, tuple) else (size,))
        raise UnownedRandomness("%s.uniform(%r, %r) is not modelled" % (self.tag, low, high))

    def shuffle(self, x):
        n = len(x)
        perms = list(itertools.permutations(range(n)))
        self.draws += 1
        p = perms[self.ch.choose(len(perms), self.tag + ".shuffle")]
        vals = [x[i] for i in p]
        for i, v in enumerate(vals):
            x[i] = v

    def permutation(self, x):
        n = int(x) if isinstance(x, (int, self.np.integer)) else len(x)
        base = list(range(n)) if isinstance(x, (int, self.np.integer)) else list(x)
        perms = list(itertools.permutations(range(n)))
        self.draws += 1
        p = perms[self.ch.choose(len(perms), self.tag + ".permutation")]
        return self.np.array([base[i] for i in p])


class GeneratorFactory(Fake):
    """stands in for `np.random` where the code only calls default_rng(seed): hands out tagged FakeGenerators"""

    Generator = None  # (set per instance) the real class, for isinstance / annotations

    def __init__(self, ch, real_np, menus, prefix="rng"):
        self.ch, self.np, self.menus, self.prefix = ch, real_np, menus, prefix
        self.made = []
        self.Generator = real_np.random.Generator

    def default_rng(self, seed=None):
        g = FakeGenerator(self.ch, self.np, self.menus, tag="%s%d" % (self.prefix, len(self.made)), seed=seed, registry=self.made)
        self.made.append(g)
        return g


# ---------------------------------------------------------------------------------------------
# seam validation: bind the fakes to the random API the code really uses
# ---------------------------------------------------------------------------------------------
class RecordingProxy:
    """wraps a REAL random source; records which attributes the code under test reaches"""

    def __init__(self, real, log, prefix=""):
        self.__dict__["_real"] = real
        self.__dict__["_log"] = log
        self.__dict__["_prefix"] = prefix

    def __getattr__(self, name):
        self._log.add(self._prefix + name)
        v = getattr(self._real, name)
        if name in ("default_rng", "RandomState"):
            log, pre = self._log, self._prefix + name + "()."

            def make(*a, **k):
                return RecordingProxy(v(*a, **k), log, pre)

            return make
        return v


def validate_seam(body, patches, fakes):
    """run `body()` once with REAL random sources wrapped in recorders and check that every API it reaches is modelled.

    patches: list of (module, name, real_object, kind) with kind in {"module", "np"}: "np" wraps real numpy's .random
    fakes:   {recorded-prefix: fake class}
    returns (sorted list of recorded calls); raises UnownedRandomness when a call is not modelled."""
    import contextlib

    log = set()
    with contextlib.ExitStack() as st:
        for module, name, real, kind in patches:
            if kind == "np":
                st.enter_context(patched(module, **{name: NumpyShim(real, RecordingProxy(real.random, log, "np.random."))}))
            else:
                st.enter_context(patched(module, **{name: RecordingProxy(real, log, name + ".")}))
        body()
    missing = []
    for call in sorted(log):
        prefix, _, meth = call.rpartition(".")
        cls = fakes.get(prefix + ".")
        if cls is None or not (hasattr(cls, meth)):
            missing.append(call)
    if missing:
        raise UnownedRandomness("the real code reaches random APIs the harness does not model: %r" % missing)
    return sorted(log)
