"""Shared plumbing: violation collection, known findings, replay artefacts, evidence.

Nothing here decides a property; it records what the engines found and writes the
interface files (/verif/evidence/<id>.json, /verif/replays/<id>/<hash>.json).
"""
import hashlib
import json
import os
import subprocess
import sys
import time

VERIF = os.path.dirname(os.path.dirname(os.path.abspath(__file__)))
REPO = os.environ.get("HGX_REPO", "/repo")
EVIDENCE_SCHEMA = "/root/.vp/EVIDENCE.schema.json"


class HarnessError(Exception):
    """The machinery itself is broken (never reported as a violation)."""


def key_hash(key):
    return hashlib.sha1(key.encode()).hexdigest()[:12]


def jsonable(x):
    """Best-effort conversion of explored cases to JSON (tuples -> lists, sets sorted, other -> repr)."""
    if isinstance(x, (str, int, float, bool)) or x is None:
        return x
    if isinstance(x, dict):
        return {(k if isinstance(k, str) else repr(k)): jsonable(v) for k, v in x.items()}
    if isinstance(x, (list, tuple)):
        return [jsonable(v) for v in x]
    if isinstance(x, (set, frozenset)):
        return sorted((jsonable(v) for v in x), key=repr)
    return repr(x)


class Violation:
    """One discrepancy, reduced to a stable key plus a (shortest-first) witness."""

    __slots__ = ("key", "msg", "witness", "size")

    def __init__(self, key, msg, witness, size=0):
        self.key = key
        self.msg = msg
        self.witness = witness  # dict understood by the check module's replay()
        self.size = size  # smaller = simpler witness

    def __reduce__(self):
        return (Violation, (self.key, self.msg, self.witness, self.size))


def load_known_findings():
    """known_findings.txt: 'known: property=<id> key=<key> <text>' / 'fixed: property=<id> <commit> key=<key> <text>'."""
    known, fixed = {}, {}
    path = os.path.join(VERIF, "known_findings.txt")
    if not os.path.exists(path):
        return known, fixed
    for line in open(path):
        line = line.strip()
        if not line or line.startswith("#"):
            continue
        kind, _, rest = line.partition(":")
        toks = rest.split()
        prop = key = None
        text = []
        for t in toks:
            if t.startswith("property=") and prop is None:
                prop = t[len("property="):]
            elif t.startswith("key=") and key is None:
                key = t[len("key="):]
            else:
                text.append(t)
        if kind == "known" and key:
            known[key] = (prop, " ".join(text))
        elif kind == "fixed" and key:
            fixed[key] = (prop, " ".join(text))
    return known, fixed


class Ctx:
    """Per-run collector handed to a check module."""

    def __init__(self, prop, tier, seed, jobs, level):
        self.prop = prop
        self.tier = tier
        self.seed = seed
        self.jobs = jobs
        self.level = level
        self.t0 = time.time()
        self.violations = {}  # key -> Violation (simplest witness kept)
        self.counts = {}
        self.samples = []
        self.notes = []
        self.assumptions = []
        self.cov = {}
        self.parts = []  # per sub-exploration summaries

    # -- collection ---------------------------------------------------------
    def add_violation(self, v):
        if not v.key.startswith(self.prop + "/"):
            v.key = self.prop + "/" + v.key
        old = self.violations.get(v.key)
        if old is None or v.size < old.size:
            self.violations[v.key] = v

    def add_violations(self, vs):
        for v in vs:
            self.add_violation(v)

    def count(self, name, n=1):
        self.counts[name] = self.counts.get(name, 0) + n

    def merge_counts(self, d):
        for k, n in d.items():
            self.count(k, n)

    def sample(self, s, cap=12):
        if len(self.samples) < cap:
            self.samples.append(jsonable(s))

    def part(self, name, **kw):
        self.parts.append(dict(name=name, **jsonable(kw)))
        print("  [%s] %s" % (name, " ".join("%s=%s" % (k, v) for k, v in kw.items())), flush=True)

    def require(self, cond, what):
        """Vacuity / self-consistency guard: failing it is a harness error, not a pass."""
        if not cond:
            raise HarnessError("vacuity guard failed: " + what)

    # -- finishing -----------------------------------------------------------
    def finish(self, coverage, assumptions=None):
        known, _fixed = load_known_findings()
        n_new = 0
        n_known = 0
        out_dir = os.path.join(VERIF, "replays", self.prop)
        if os.path.isdir(out_dir):
            for f in os.listdir(out_dir):
                if f.endswith(".json"):
                    os.remove(os.path.join(out_dir, f))
        for key in sorted(self.violations):
            v = self.violations[key]
            if key in known:
                n_known += 1
                print("KNOWN-FINDING: property=%s %s [key=%s]" % (self.prop, known[key][1], key))
                continue
            os.makedirs(out_dir, exist_ok=True)
            path = os.path.join(out_dir, key_hash(key) + ".json")
            with open(path, "w") as f:
                json.dump(
                    {"property": self.prop, "key": key, "message": v.msg, "witness": jsonable_witness(v.witness)},
                    f, indent=1, sort_keys=True,
                )
            n_new += 1
            print("VIOLATION property=%s replay=%s" % (self.prop, path))
            print("   key=%s\n   %s" % (key, v.msg.replace("\n", "\n   ")))
        cov = dict(coverage)
        cov.setdefault("samples", self.samples)
        cov["counters"] = dict(sorted(self.counts.items()))
        cov["parts"] = self.parts
        cov["known_findings_hit"] = n_known
        ev = {
            "property_id": self.prop,
            "tier": self.tier,
            "seed": self.seed,
            "level": self.level,
            "coverage": cov,
            "assumptions": (assumptions or []) + self.assumptions,
            "wall_s": round(time.time() - self.t0, 3),
            "violations": n_new,
        }
        write_evidence(self.prop, ev)
        return 1 if n_new else 0


def jsonable_witness(w):
    # witnesses hold python literals as repr-strings where exactness matters (tuples vs lists)
    return jsonable(w)


def write_evidence(prop, ev):
    d = os.path.join(VERIF, "evidence")
    os.makedirs(d, exist_ok=True)
    path = os.path.join(d, prop + ".json")
    tmp = path + ".tmp"
    with open(tmp, "w") as f:
        json.dump(ev, f, indent=1, sort_keys=True)
    # minimal structural validation here; full JSON-schema validation with the tooling venv if present
    for k in ("property_id", "tier", "seed", "level", "coverage", "wall_s"):
        if k not in ev:
            raise HarnessError("evidence lacks " + k)
    cov = ev["coverage"]
    if ev["level"] == "model_checking":
        for k in ("states", "transitions", "traces_validated_against_impl", "samples"):
            if k not in cov:
                raise HarnessError("model_checking evidence lacks " + k)
        if (cov["states"] < 1 or cov["transitions"] < 1 or not cov["samples"]) and not ev.get("violations"):
            raise HarnessError("model_checking evidence is empty")
    else:
        for k in ("evaluations", "distinct_nontrivial", "rule", "samples"):
            if k not in cov:
                raise HarnessError("exploration evidence lacks " + k)
        if (cov["evaluations"] < 1 or cov["distinct_nontrivial"] < 2 or not cov["samples"]) and not ev.get("violations"):
            raise HarnessError("exploration evidence is empty")
    if os.path.exists(EVIDENCE_SCHEMA):
        code = (
            "import json,sys,jsonschema;"
            "jsonschema.validate(json.load(open(sys.argv[1])), json.load(open(sys.argv[2])))"
        )
        try:
            r = subprocess.run(["python3-vt", "-c", code, tmp, EVIDENCE_SCHEMA], capture_output=True, text=True, timeout=60)
            if r.returncode != 0 and "ModuleNotFoundError" not in r.stderr and not ev.get("violations"):
                raise HarnessError("evidence does not validate: " + r.stderr[-800:])
        except (FileNotFoundError, subprocess.TimeoutExpired):
            pass
    os.replace(tmp, path)
    return path
