"""Deterministic fork-based parallel map (results returned in task order)."""
import multiprocessing as mp
import os
import sys
import traceback

_FN = None


def _call(i_task):
    i, task = i_task
    try:
        return (i, True, _FN(task))
    except BaseException:  # noqa - report to parent, never hang the pool
        return (i, False, traceback.format_exc())


def pmap(fn, tasks, jobs=None, chunksize=1):
    """Run fn over tasks in forked workers. fn may be a closure (inherited through fork).

    The explored set never depends on scheduling: results are re-ordered by task index.
    """
    global _FN
    tasks = list(tasks)
    jobs = jobs or int(os.environ.get("VERIF_JOBS", "0")) or min(16, os.cpu_count() or 1)
    if jobs <= 1 or len(tasks) <= 1:
        _FN = fn
        out = [_call((i, t)) for i, t in enumerate(tasks)]
    else:
        _FN = fn
        sys.stdout.flush()
        ctx = mp.get_context("fork")
        with ctx.Pool(min(jobs, len(tasks))) as pool:
            out = list(pool.imap_unordered(_call, list(enumerate(tasks)), chunksize=chunksize))
    out.sort(key=lambda r: r[0])
    res = []
    for i, ok, val in out:
        if not ok:
            from .core import HarnessError

            raise HarnessError("worker failed on task %d:\n%s" % (i, val))
        res.append(val)
    return res


def chunks(seq, n):
    """Split seq into at most n contiguous chunks of near-equal size (deterministic)."""
    seq = list(seq)
    if not seq:
        return []
    n = max(1, min(n, len(seq)))
    k, r = divmod(len(seq), n)
    out, i = [], 0
    for j in range(n):
        m = k + (1 if j < r else 0)
        out.append(seq[i:i + m])
        i += m
    return out
