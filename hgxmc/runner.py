"""CLI: python -m hgxmc.runner <ID> [--tier quick|thorough] [--replay path] [--jobs N]

exit 0: property held on everything explored (KNOWN-FINDING lines possible)
exit 1: at least one 'VIOLATION property=<id> replay=<path>' line
exit 2: harness error (never a verdict)
"""
import argparse
import importlib
import io
import json
import os
import sys
import traceback


def main(argv=None):
    ap = argparse.ArgumentParser()
    ap.add_argument("prop")
    ap.add_argument("--tier", default=os.environ.get("VERIF_TIER", "quick"), choices=["quick", "thorough"])
    ap.add_argument("--replay", default=None)
    ap.add_argument("--jobs", type=int, default=int(os.environ.get("VERIF_JOBS", "0")) or min(16, os.cpu_count() or 1))
    a = ap.parse_args(argv)
    try:
        seed = int(os.environ.get("VERIF_SEED", "0"))
    except ValueError:
        seed = 0
    from . import core

    repo = core.REPO
    if repo not in sys.path:
        sys.path.insert(0, repo)
    try:
        import hypergraphx

        hx = os.path.realpath(hypergraphx.__file__)
        if not hx.startswith(os.path.realpath(repo) + os.sep):
            raise core.HarnessError("hypergraphx imported from %s, not from %s" % (hx, repo))
        mod = importlib.import_module("hgxmc.checks." + a.prop.lower())
        if a.replay:
            doc = json.load(open(a.replay))
            try:
                ok = mod.replay(doc["witness"], doc.get("key"))
            except Exception as e:
                from .corpus import BuildError
                from .e4 import raised_in_library

                if not isinstance(e, BuildError) and not raised_in_library(e):
                    raise
                print("   %s: %s" % (type(e).__name__, str(e)[:600]))
                ok = True  # the library raised on the witness input: a violation is reproduced (possibly before the recorded one is reached)
            if ok:
                print("VIOLATION property=%s replay=%s" % (a.prop, a.replay))
                print("   reproduced: key=%s" % doc.get("key"))
                return 1
            print("replay: no violation reproduced for key=%s" % doc.get("key"))
            return 0
        ctx = core.Ctx(a.prop, a.tier, seed, a.jobs, mod.LEVEL)
        print("check %s tier=%s seed=%d jobs=%d repo=%s" % (a.prop, a.tier, seed, a.jobs, repo), flush=True)
        rc = mod.run(ctx)
        print("check %s: %s (wall %.1fs)" % (a.prop, "VIOLATIONS" if rc else "ok", __import__("time").time() - ctx.t0))
        return rc
    except core.HarnessError as e:
        print("HARNESS-ERROR %s: %s" % (a.prop, e))
        return 2
    except Exception:
        print("HARNESS-ERROR %s: unexpected exception\n%s" % (a.prop, traceback.format_exc()))
        return 2


if __name__ == "__main__":
    sys.exit(main())
