"""Seam validation (DESIGN 2.3): every E3 harness replaces a module-level name (np / random) by a fake.  Here the real
function is run once with the REAL random source wrapped in a recorder, and every random API it reaches must be one the
fake models.  A refactor that starts using a new random API therefore makes the check a harness error (exit 2), never a
silent loss of coverage."""
import contextlib
import io
import random as _random

import numpy as np

from . import choice as CH


def _quiet(f):
    def g():
        with contextlib.redirect_stdout(io.StringIO()):
            return f()
    return g


def validate(prop):
    from hypergraphx import DirectedHypergraph, Hypergraph

    out = {}
    h = Hypergraph([(1, 2), (3, 4), (1, 2, 3), (2, 3, 4)])
    if prop == "C13":
        import hypergraphx.generation.configuration_model as CM
        import hypergraphx.generation.directed_configuration_model as DCM

        out["configuration_model"] = CH.validate_seam(_quiet(lambda: [CM.configuration_model(h, n_steps=8, label=l, detailed=d) for l in ("edge", "stub") for d in (True, False)]),
                                                      [(CM, "np", np, "np")], {"np.random.": CH.FakeNumpyRandom})
        d = DirectedHypergraph([((1,), (2,)), ((2, 3), (1,)), ((4,), (1, 3))])
        out["directed_configuration_model"] = CH.validate_seam(_quiet(lambda: DCM.directed_configuration_model(d)), [(DCM, "random", _random, "module")], {"random.": CH.FakeStdRandom})
    elif prop == "C14":
        import hypergraphx.generation.activity_driven as AD
        import hypergraphx.generation.random as R
        import hypergraphx.generation.scale_free as SF

        def body():
            R.random_hypergraph(5, {2: 2, 3: 1}, seed=1)
            R.random_uniform_hypergraph(5, 2, 2, seed=None)
            g = h.copy()
            R.add_random_edge(g, size=2)
            R.add_random_edges(g, 2, order=2)
            R.random_shuffle(g, size=3, p=0.5)
            R.random_shuffle(g, size=2, p=1.0, preserve_degree=True, inplace=False, seed=3)
            R.random_shuffle_all_orders(g, p=1.0, inplace=False)

        out["generation.random"] = CH.validate_seam(_quiet(body), [(R, "random", _random, "module"), (R, "np", np, "np")], {"random.": CH.FakeStdRandom, "np.random.": CH.FakeNumpyRandom})
        out["scale_free"] = CH.validate_seam(_quiet(lambda: [SF.scale_free_hypergraph(6, {2: 3, 3: 2}, {2: 1.0, 3: 1.0}), SF.scale_free_hypergraph(6, {2: 3, 3: 2}, {2: 1.0, 3: 1.0}, corr_target=0.5),
                                                            SF.scale_free_hypergraph(6, {2: 2}, {2: 1.0}, num_shuffles=2), SF.scale_free_hypergraph(6, {2: 2}, {2: 1.0}, correlated=False)]),
                                             [(SF, "np", np, "np")], {"np.random.": CH.FakeNumpyRandom})
        out["activity_driven"] = CH.validate_seam(_quiet(lambda: AD.HOADmodel(4, {1: [0.5] * 4, 2: [0.9] * 4}, time=3)), [(AD, "random", _random, "module")], {"random.": CH.FakeStdRandom})
    elif prop == "C15":
        import hypergraphx.communities.hy_mmsbm.model as M

        g = Hypergraph([(0, 1), (1, 2, 3), (0, 3)])

        def body():
            for wp in (0.0, 1.0):
                for up in (0.0, 1.0):
                    for a in (True, False):
                        M.HyMMSBM(K=2, assortative=a, w_prior=wp, u_prior=up, seed=1).fit(g, n_iter=2)

        out["hy_mmsbm.fit"] = CH.validate_seam(_quiet(body), [(M, "np", np, "np")], {"np.random.": CH.GeneratorFactory, "np.random.default_rng().": CH.FakeGenerator})
    elif prop == "C16":
        import hypergraphx.communities.hy_mmsbm.model as M
        import hypergraphx.generation.hy_mmsbm_sampling as S

        u = np.array([[1.0, 0.2], [0.8, 0.4], [0.3, 1.0], [0.5, 0.9]]) * 2
        w = np.array([[1.5, 0.3], [0.3, 1.0]])

        def body():
            sp = S.HyMMSBMSampler(u=u, w=w, max_hye_size=3, burn_in_steps=3, intermediate_steps=2, seed=1)
            g = sp.sample()
            next(g), next(g)
            sp = S.HyMMSBMSampler(u=u, w=w, burn_in_steps=2, intermediate_steps=1, seed=1, exact_dyadic_sampling=False)
            next(sp.sample())
            sp = S.HyMMSBMSampler(u=u, w=w, burn_in_steps=2, intermediate_steps=1, seed=1)
            next(sp.sample(deg_seq=np.array([2.0, 2.0, 1.0, 1.0]), dim_seq={2: 3}))
            sp = S.HyMMSBMSampler(u=u, w=w, burn_in_steps=2, intermediate_steps=1, seed=1)
            next(sp.sample(initial_hyg=Hypergraph([(5, 7), (2, 5, 11), (7, 11)])))

        out["hy_mmsbm_sampling"] = CH.validate_seam(_quiet(body), [(S, "np", np, "np"), (M, "np", np, "np")],
                                                    {"np.random.": CH.GeneratorFactory, "np.random.default_rng().": CH.FakeGenerator})
    elif prop == "C17":
        import hypergraphx.communities.hypergraph_mt.model as MT
        from .checks.c17 import FakeRandomState, RSFactory

        g = Hypergraph([(2, 5), (5, 7, 11), (2, 7)])

        def body():
            for base in (False, True):
                for nu in (False, True):
                    MT.HypergraphMT(n_realizations=2, max_iter=3, verbose=False).fit(g, K=2, seed=1, normalizeU=nu, baseline_r0=base)

        out["hypergraph_mt.fit"] = CH.validate_seam(_quiet(body), [(MT, "np", np, "np")], {"np.random.": RSFactory, "np.random.RandomState().": FakeRandomState})
    elif prop == "C18":
        import hypergraphx.dynamics.contagion as CT
        import hypergraphx.dynamics.randwalk as RW

        g = Hypergraph([(0, 1), (1, 2, 3), (0, 3)])
        out["contagion"] = CH.validate_seam(_quiet(lambda: CT.simplicial_contagion(g, {0: 1, 1: 0, 2: 1, 3: 0}, 5, 0.5, 0.5, 0.3)), [(CT, "np", np, "np")], {"np.random.": CH.FakeNumpyRandom})
        out["random_walk"] = CH.validate_seam(_quiet(lambda: RW.random_walk(g, 0, 5)), [(RW, "np", np, "np")], {"np.random.": CH.FakeNumpyRandom})
    elif prop == "C20":
        import hypergraphx.measures.eigen_centralities as EC

        g = Hypergraph([(0, 1, 2), (1, 2, 3), (0, 3, 4)])
        out["eigen_centralities"] = CH.validate_seam(_quiet(lambda: [EC.CEC_centrality(g), EC.HEC_centrality(g)]), [(EC, "np", np, "np")], {"np.random.": CH.FakeNumpyRandom})
    return out
