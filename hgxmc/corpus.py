"""E4: bounded-exhaustive corpora of container *contents* (not histories).

A content descriptor is a plain dict:
  kind: "H" | "D" | "T" | "M"
  nodes: tuple of all nodes (including isolated ones)
  edges: tuple of records  (H: node tuple; D: (src tuple, tgt tuple); T: (time, node tuple); M: (node tuple, layer))
  weighted: bool ; weights: tuple aligned with edges (or None)
  nmd: {node: metadata dict} ; emd: {record: metadata dict} ; hmd: dict (extra hypergraph-level metadata)
Every content can be built directly or through a *detour* history (reverse insertion order, an extra
node and hyperedge inserted and removed again) - functions under test must not tell them apart.
"""
import itertools


def subsets(U, lo, hi):
    return [c for r in range(lo, hi + 1) for c in itertools.combinations(U, r)]


def edge_sets(cands, max_edges, min_edges=0):
    for r in range(min_edges, max_edges + 1):
        for es in itertools.combinations(cands, r):
            yield es


def inj_weights(n):
    """injective weights 3,5,7,.. so that an id used as weight or a swapped weight is visible"""
    return tuple(3 + 2 * i for i in range(n))


def node_md_rule(nodes, style):
    if style == 0:
        return {}
    return {n: ({"c": "x%s" % (n,)} if i % 2 == 0 else {"c": "y", "g": i}) for i, n in enumerate(nodes)}


def edge_md_rule(edges, style):
    if style == 0:
        return {}
    return {e: ({"e": i} if i % 2 == 0 else {}) for i, e in enumerate(edges)}


def hypergraph_contents(U_edges, isolated=(), lo=1, hi=3, max_edges=3, min_edges=0, weighted=(False, True), md_styles=(0, 1)):
    cands = subsets(U_edges, lo, hi)
    for es in edge_sets(cands, max_edges, min_edges):
        used = sorted({n for e in es for n in e})
        nodes = tuple(used) + tuple(isolated)
        for w in weighted:
            for sty in md_styles:
                yield {
                    "kind": "H", "nodes": nodes, "edges": tuple(es), "weighted": w,
                    "weights": inj_weights(len(es)) if w else None,
                    "nmd": node_md_rule(nodes, sty), "emd": edge_md_rule(es, sty), "hmd": {},
                }


def directed_pairs(U, max_size=None):
    subs = subsets(U, 1, len(U) - 1)
    out = []
    for s in subs:
        for t in subs:
            if not set(s) & set(t) and (max_size is None or len(s) + len(t) <= max_size):
                out.append((s, t))
    return out


def directed_contents(U, isolated=(), max_edges=3, min_edges=0, weighted=(False, True), md_styles=(0, 1), max_size=None):
    cands = directed_pairs(U, max_size)
    for es in edge_sets(cands, max_edges, min_edges):
        used = sorted({n for s, t in es for n in s + t})
        nodes = tuple(used) + tuple(isolated)
        for w in weighted:
            for sty in md_styles:
                yield {
                    "kind": "D", "nodes": nodes, "edges": tuple(es), "weighted": w,
                    "weights": inj_weights(len(es)) if w else None,
                    "nmd": node_md_rule(nodes, sty), "emd": edge_md_rule(es, sty), "hmd": {},
                }


def temporal_contents(U, times=(0, 1, 2), isolated=(), lo=1, hi=3, max_edges=3, min_edges=0, weighted=(False, True), md_styles=(0, 1)):
    cands = [(t, e) for t in times for e in subsets(U, lo, hi)]
    for es in edge_sets(cands, max_edges, min_edges):
        used = sorted({n for t, e in es for n in e})
        nodes = tuple(used) + tuple(isolated)
        for w in weighted:
            for sty in md_styles:
                yield {
                    "kind": "T", "nodes": nodes, "edges": tuple(es), "weighted": w,
                    "weights": inj_weights(len(es)) if w else None,
                    "nmd": node_md_rule(nodes, sty), "emd": edge_md_rule(es, sty), "hmd": {},
                }


def multiplex_contents(U, layers=("a", "b"), isolated=(), lo=1, hi=3, max_edges=3, min_edges=0, weighted=(False, True), md_styles=(0, 1)):
    cands = [(e, l) for e in subsets(U, lo, hi) for l in layers]
    for es in edge_sets(cands, max_edges, min_edges):
        used = sorted({n for e, l in es for n in e})
        nodes = tuple(used) + tuple(isolated)
        for w in weighted:
            for sty in md_styles:
                yield {
                    "kind": "M", "nodes": nodes, "edges": tuple(es), "weighted": w,
                    "weights": inj_weights(len(es)) if w else None,
                    "nmd": node_md_rule(nodes, sty), "emd": edge_md_rule(es, sty), "hmd": {},
                }


# ---------------------------------------------------------------------------------------------
def _md(d):
    return dict(d) if d else None


class BuildError(Exception):
    """the library raised while a content was being built through valid public calls (a finding about the library, not about
    the harness): carries the content and the route so that the E4 driver can report it as a violation"""

    def __init__(self, desc, detour, exc):
        Exception.__init__(self, "building %r (detour=%r) raised %s: %s" % (show(desc), detour, type(exc).__name__, exc))
        self.desc, self.detour, self.exc = desc, detour, exc


def build(desc, detour=False, extra_node="zz9", relabel=None):
    """materialise a content on the real class; detour=True takes the scenic route"""
    try:
        return _build(desc, detour, extra_node, relabel)
    except (AssertionError, KeyboardInterrupt, MemoryError):
        raise
    except Exception as e:
        raise BuildError(desc, detour, e)


def _build(desc, detour=False, extra_node="zz9", relabel=None):
    import hypergraphx as hx

    R = (lambda n: relabel[n]) if relabel else (lambda n: n)
    k = desc["kind"]
    cls = {"H": hx.Hypergraph, "D": hx.DirectedHypergraph, "T": hx.TemporalHypergraph, "M": hx.MultiplexHypergraph}[k]
    h = cls(weighted=desc["weighted"])
    nodes = list(desc["nodes"])
    edges = list(enumerate(desc["edges"]))
    if detour is True:
        nodes = nodes[::-1]
        edges = edges[::-1]
        xn = extra_node if not nodes or isinstance(nodes[0], str) else 10 ** 6
        # extra node + extra hyperedge touching a real node, inserted FIRST (so that internal ids of the real
        # records do not coincide with their list positions) and removed again at the end
        h.add_node(xn)
        if nodes:
            a = R(nodes[0])
            b = R(nodes[-1])
            # two extra records touch the extra node (its removal has to take out BOTH), the second one also touches a real node
            if k == "H":
                h.add_edge((a, xn))
                h.add_edge((xn, b, a) if a != b else (xn,))
            elif k == "D":
                h.add_edge(((a,), (xn,)))
                h.add_edge(((xn,), (b,)))
            elif k == "T":
                h.add_edge((a, xn), 7)
                h.add_edge((b, xn), 8)
            else:
                h.add_edge((a, xn), "zz")
                h.add_edge((b, xn, a) if a != b else (xn,), "zz")
    shrink = None
    if detour == "shrink" and k != "D" and (k != "M" or desc["edges"]):
        # an extra node that lives only in a singleton record of its own is inserted first and taken out at the end
        # with keep_edges=True (its record shrinks to nothing and must vanish with it)
        shrink = extra_node if not nodes or isinstance(nodes[0], str) else 10 ** 6
        if k == "H":
            h.add_edge((shrink,))
        elif k == "T":
            h.add_edge((shrink,), 7)
        else:
            h.add_edge((shrink,), desc["edges"][0][1])
    for n in nodes:
        md = desc["nmd"].get(n)
        h.add_node(R(n), metadata=dict(md)) if md else h.add_node(R(n))
    for i, e in edges:
        w = desc["weights"][i] if desc["weighted"] else None
        md = desc["emd"].get(e)
        kw = {}
        if w is not None:
            kw["weight"] = w
        if md:
            kw["metadata"] = dict(md)
        if k == "H":
            ee = tuple(R(x) for x in e)
            h.add_edge(ee[::-1] if detour is True else ee, **kw)
        elif k == "D":
            s, t = tuple(R(x) for x in e[0]), tuple(R(x) for x in e[1])
            h.add_edge((s[::-1], t[::-1]) if detour is True else (s, t), **kw)
        elif k == "T":
            ee = tuple(R(x) for x in e[1])
            h.add_edge(ee[::-1] if detour is True else ee, e[0], **kw)
        else:
            ee = tuple(R(x) for x in e[0])
            h.add_edge(ee[::-1] if detour is True else ee, e[1], **kw)
    if detour is True:
        h.remove_node(xn)  # drops the extra hyperedge with it
        if desc["weighted"] and len(desc["edges"]) >= 2:
            # weighted: insert the record that went in FIRST (the last of the descriptor: insertion is reversed here) once
            # more (its weight accumulates) and set the weight back
            e = desc["edges"][-1]
            md = desc["emd"].get(e)
            kw = {"weight": 1}
            if md:
                kw["metadata"] = dict(md)
            w0 = desc["weights"][-1]
            if k == "H":
                ee = tuple(R(x) for x in e)
                h.add_edge(ee, **kw)
                h.set_weight(ee, w0)
            elif k == "D":
                ee = (tuple(R(x) for x in e[0]), tuple(R(x) for x in e[1]))
                h.add_edge(ee, **kw)
                h.set_weight(ee, w0)
            elif k == "T":
                ee = tuple(R(x) for x in e[1])
                h.add_edge(ee, e[0], **kw)
                h.set_weight(ee, e[0], w0)
            else:
                ee = tuple(R(x) for x in e[0])
                h.add_edge(ee, e[1], **kw)
                h.set_weight(ee, e[1], w0)
        if not desc["weighted"] and desc["edges"]:
            # re-insert the first record, listed in the original order (idempotent for unweighted containers);
            # its metadata is passed again so that the content stays the same
            e = desc["edges"][0]
            md = desc["emd"].get(e)
            kw = {"metadata": dict(md)} if md else {}
            if k == "H":
                h.add_edge(tuple(R(x) for x in e), **kw)
            elif k == "D":
                h.add_edge((tuple(R(x) for x in e[0]), tuple(R(x) for x in e[1])), **kw)
            elif k == "T":
                h.add_edge(tuple(R(x) for x in e[1]), e[0], **kw)
            else:
                h.add_edge(tuple(R(x) for x in e[0]), e[1], **kw)
    if (detour == 2 or isinstance(detour, tuple)) and len(desc["edges"]) >= 2:
        # churn: remove two records (first and last, or the given pair in that order), then insert both again (with weight
        # and metadata): internal ids are handed out again after removals
        picks = [0, len(desc["edges"]) - 1] if detour == 2 else [detour[1], detour[2]]
        for i in picks:
            e = desc["edges"][i]
            if k == "H":
                h.remove_edge(tuple(R(x) for x in e))
            elif k == "D":
                h.remove_edge((tuple(R(x) for x in e[0]), tuple(R(x) for x in e[1])))
            elif k == "T":
                h.remove_edge(tuple(R(x) for x in e[1]), e[0])
            else:
                h.remove_edge((tuple(R(x) for x in e[0]), e[1]))
        for i in picks:
            e = desc["edges"][i]
            kw = {}
            if desc["weighted"]:
                kw["weight"] = desc["weights"][i]
            if desc["emd"].get(e):
                kw["metadata"] = dict(desc["emd"][e])
            if k == "H":
                h.add_edge(tuple(R(x) for x in e), **kw)
            elif k == "D":
                h.add_edge((tuple(R(x) for x in e[0]), tuple(R(x) for x in e[1])), **kw)
            elif k == "T":
                h.add_edge(tuple(R(x) for x in e[1]), e[0], **kw)
            else:
                h.add_edge(tuple(R(x) for x in e[0]), e[1], **kw)
    if shrink is not None:
        h.remove_node(shrink, keep_edges=True)
        # the library keeps a record shrunk to nothing as the empty hyperedge (accepted, DESIGN 2.10): take it out again
        try:
            if k == "H" and h.check_edge(()):
                h.remove_edge(())
            elif k == "T" and h.check_edge((), 7):
                h.remove_edge((), 7)
            elif k == "M" and h.check_edge((), desc["edges"][0][1]):
                h.remove_edge(((), desc["edges"][0][1]))
        except Exception:
            pass
    for kk, v in desc.get("hmd", {}).items():
        h.set_attr_to_hypergraph_metadata(kk, v)
    return h


def relabelled(desc, mapping):
    """the same content under a node relabelling"""
    M = lambda n: mapping[n]
    k = desc["kind"]

    def me(e):
        if k == "H":
            return tuple(sorted(M(x) for x in e))
        if k == "D":
            return (tuple(sorted(M(x) for x in e[0])), tuple(sorted(M(x) for x in e[1])))
        if k == "T":
            return (e[0], tuple(sorted(M(x) for x in e[1])))
        return (tuple(sorted(M(x) for x in e[0])), e[1])

    d = dict(desc)
    d["nodes"] = tuple(M(n) for n in desc["nodes"])
    d["edges"] = tuple(me(e) for e in desc["edges"])
    d["nmd"] = {M(n): v for n, v in desc["nmd"].items()}
    d["emd"] = {me(e): v for e, v in desc["emd"].items()}
    return d


def show(desc):
    return {"kind": desc["kind"], "weighted": desc["weighted"], "nodes": list(desc["nodes"]), "edges": [repr(e) for e in desc["edges"]],
            "weights": list(desc["weights"]) if desc["weights"] else None,
            "nmd": {repr(k): v for k, v in desc["nmd"].items()}, "emd": {repr(k): v for k, v in desc["emd"].items()},
            "hmd": desc.get("hmd", {})}


def from_show(d):
    import ast

    edges = tuple(ast.literal_eval(e) for e in d["edges"])
    return {"kind": d["kind"], "nodes": tuple(d["nodes"]), "edges": edges, "weighted": d["weighted"],
            "weights": tuple(d["weights"]) if d["weights"] else None,
            "nmd": {ast.literal_eval(k): v for k, v in d["nmd"].items()},
            "emd": {ast.literal_eval(k): v for k, v in d["emd"].items()}, "hmd": d.get("hmd", {})}
