"""Operation alphabets (tiny argument domains forced to collide), per container and profile.

Uniform op encoding (all hashable, printable with repr, parseable with ast.literal_eval):
  ("add_node", n, md|None)                ("add_nodes", (n..), ((n, md)..)|None)
  ("add_edge", raw, extra, w|None, md|None)
  ("add_edges", (raw..), (extra..)|None, (w..)|None, (md..)|None)
  ("remove_edge", raw, extra)             ("remove_edges", ((raw, extra)..))
  ("remove_node", n, keep)                ("remove_nodes", (n..), keep)
  ("set_weight", raw, extra, w)
  ("set_node_metadata", n, md)            ("set_edge_metadata", raw, extra, md)
  ("set_attr_node", n, k, v)              ("rm_attr_node", n, k)
  ("set_attr_edge", raw, extra, k, v)     ("rm_attr_edge", raw, extra, k)
  ("set_attr_hg", k, v)  ("clear",)  ("copy",)
metadata md is a tuple of (key, value) items; extra is the time / layer (None otherwise).
"""
import itertools


def subsets(U, lo=1, hi=None):
    hi = hi or len(U)
    return [c for r in range(lo, hi + 1) for c in itertools.combinations(U, r)]


def unsorted_variants(edges):
    """one non-sorted listing per hyperedge of size >= 2 (reversed; rotated for size 3+)"""
    out = []
    for e in edges:
        if len(e) == 2:
            out.append(tuple(reversed(e)))
        elif len(e) > 2:
            out.append(e[-1:] + e[:-1])
    return out


MD1 = (("k", 1),)
MD2 = (("k", 2),)


def hypergraph_structure(U, edges=None, absent=99, batches=True):
    E = edges or subsets(U)
    ops = []
    for n in U:
        ops.append(("add_node", n, None))
    for e in E:
        ops.append(("add_edge", e, None, None, None))
    for e in unsorted_variants(E):
        ops.append(("add_edge", e, None, None, None))
    for e in E:
        ops.append(("remove_edge", e, None))
    for e in unsorted_variants(E)[:1]:
        ops.append(("remove_edge", e, None))
    for n in U:
        ops.append(("remove_node", n, False))
        ops.append(("remove_node", n, True))
    ops.append(("remove_node", absent, False))
    ops.append(("remove_edge", (U[0], absent), None))
    ops.append(("add_edge", E[0], None, 2, None))  # weight on (possibly) unweighted -> rejected
    ops.append(("set_weight", E[-1], None, 3))
    ops.append(("set_weight", E[-1], None, 1))
    ops.append(("set_attr_hg", "x", 1))
    ops.append(("clear",))
    ops.append(("copy",))
    if batches:
        a, b, c = U[0], U[1], U[-1]
        big = tuple(U)
        ops += [
            ("add_nodes", (a, b), None),
            ("add_nodes", (c, a), None),
            ("add_edges", ((a, b), (b, a)), None, None, None),  # same set twice, two listings
            ("add_edges", ((a, b), big), None, None, None),
            ("add_edges", ((c,), (b, c)), None, None, None),
            ("add_edges", ((a, c), (b, c)), None, None, (MD1,)),  # metadata list shorter than the batch -> rejected, nothing added
            ("remove_edges", (((a, b), None), (big, None))),
            ("remove_edges", (((b, a), None), ((b, c), None))),
            ("remove_edges", (((a, b), None), ((a, absent), None))),  # second absent -> rejected, nothing removed
            ("remove_edges", (((a, b), None), ((a, b), None))),  # repeated -> second absent
            ("remove_edges", (((c, b), None), ((a, b), None), ((b, a), None))),  # same hyperedge in two listings -> rejected, nothing removed
            ("remove_nodes", (a, b), False),
            ("remove_nodes", (c, a), True),
            ("remove_nodes", (a, absent), False),  # second absent -> rejected, nothing removed
            ("remove_nodes", (b, absent), True),
        ]
    return ops


def hypergraph_weights(U, edges, absent=99):
    ops = []
    for n in U:
        ops.append(("add_node", n, None))
    for e in edges:
        for w in (None, 1, 2):
            ops.append(("add_edge", e, None, w, None))
    for e in unsorted_variants(edges):
        ops.append(("add_edge", e, None, 2, None))
    ops.append(("add_edge", edges[0], None, 0, None))  # weight 0 is a weight like any other
    ops.append(("set_weight", edges[-1], None, 0))
    for e in edges:
        ops.append(("remove_edge", e, None))
        ops.append(("set_weight", e, None, 1))
        ops.append(("set_weight", e, None, 3))
    for e in unsorted_variants(edges)[:2]:
        ops.append(("set_weight", e, None, 2))
    for n in U:
        ops.append(("remove_node", n, False))
        ops.append(("remove_node", n, True))
    ops.append(("set_weight", (U[0], absent), None, 2))
    big = [e for e in edges if len(e) >= 2] + [e for e in edges if len(e) < 2]
    if len(big) >= 2:
        ops.append(("add_edges", (big[0], big[1]), None, (2, 1), None))
        ops.append(("add_edges", (big[0], tuple(reversed(big[0]))), None, (1, 1), None))
        ops.append(("add_edges", (big[0], big[1]), None, (2,), None))  # length mismatch -> rejected
        ops.append(("add_edges", (big[0], big[0]), None, (1, 1), None))  # lenient: repeated hyperedge in weighted batch
    ops.append(("clear",))
    return ops


def weight_cap(cap):
    """enabled-predicate for E2: disable operations that would push a weight over the cap"""

    def enabled(model, op):
        K = model.kind
        if not model.weighted:
            if op[0] == "add_edges" and op[3] is not None:
                return all(w <= cap for w in op[3])
            return True
        if op[0] == "add_edge":
            k = K.key(op[1], op[2])
            w = 1 if op[3] is None else op[3]
            return model.edges.get(k, [0])[0] + w <= cap
        if op[0] == "add_edges" :
            tot = {}
            for i, raw in enumerate(op[1]):
                k = K.key(raw, op[2][i] if op[2] is not None else None)
                tot[k] = tot.get(k, model.edges.get(k, [0])[0]) + (op[3][i] if op[3] is not None and i < len(op[3]) else 1)
            return all(v <= cap for v in tot.values())
        if op[0] in ("remove_node", "remove_nodes") and op[-1] is True:
            ns = (op[1],) if op[0] == "remove_node" else op[1]
            m = model
            for n in ns:
                if n not in m.nodes:
                    return True
                try:
                    alts = m.apply(("remove_node", n, True))
                except Exception:
                    return True
                m = alts[0]
                if any(w > cap for w, _ in m.edges.values()):
                    return False
            return True
        return True

    return enabled


def hypergraph_metadata(U, edges, absent=99, rich=False):
    ops = []
    for n in U:
        ops.append(("add_node", n, None))
        ops.append(("add_node", n, MD1))
        ops.append(("set_node_metadata", n, ()))
        ops.append(("set_attr_node", n, "k", 1))
        ops.append(("rm_attr_node", n, "k"))
        ops.append(("remove_node", n, False))
        ops.append(("remove_node", n, True))
        if rich:
            ops.append(("set_node_metadata", n, MD2))
            ops.append(("set_attr_node", n, "j", 2))
    for e in edges:
        ops.append(("add_edge", e, None, None, None))
        ops.append(("add_edge", e, None, None, MD1))
        ops.append(("set_edge_metadata", e, None, MD2))
        ops.append(("set_attr_edge", e, None, "k", 1))
        ops.append(("rm_attr_edge", e, None, "k"))
        ops.append(("remove_edge", e, None))
        if rich:
            ops.append(("set_attr_edge", e, None, "j", 2))
    for e in unsorted_variants(edges)[:1]:
        ops.append(("add_edge", e, None, None, MD2))
        ops.append(("set_edge_metadata", e, None, MD1))
        ops.append(("set_attr_edge", e, None, "k", 2))
        ops.append(("rm_attr_edge", e, None, "k"))
    ops.append(("add_nodes", (U[0], U[1]), None))
    ops.append(("add_edges", (edges[0], edges[-1]), None, None, None))
    ops.append(("add_nodes", (U[0], U[1]), ((U[0], MD1), (U[1], MD1))))
    ops.append(("add_nodes", (U[0], U[1]), ((U[0], MD1),)))  # metadata lacks a node -> rejected, nothing added
    ops.append(("add_edges", (edges[0], edges[-1]), None, None, (MD1, MD2)))
    ops.append(("set_attr_node", absent, "k", 1))
    ops.append(("set_attr_edge", (U[0], absent), None, "k", 1))
    if rich:
        ops.append(("set_attr_hg", "x", 1))
    ops.append(("clear",))
    ops.append(("copy",))
    return ops


# ---------------------------------------------------------------------------------------------
# generic alphabets over records (raw, extra) for the directed / temporal / multiplex containers
# ---------------------------------------------------------------------------------------------
def unsorted_raw(kind_name, raw):
    """a different listing of the same record (or None)"""
    if kind_name == "DirectedHypergraph":
        s, t = raw
        if len(s) > 1 or len(t) > 1:
            return (tuple(reversed(s)), tuple(reversed(t)))
        return None
    if len(raw) == 2:
        return tuple(reversed(raw))
    if len(raw) > 2:
        return raw[-1:] + raw[:-1]
    return None


def record_structure(kind_name, U, records, absent=99, absent_record=None, has_clear=True, has_copy=True,
                     batches=True, invalid_extras=(), has_set_weight=True, hg_attr=True):
    ops = []
    for n in U:
        ops.append(("add_node", n, None))
    for raw, x in records:
        ops.append(("add_edge", raw, x, None, None))
    seen = 0
    for raw, x in records:
        r = unsorted_raw(kind_name, raw)
        if r is not None:
            ops.append(("add_edge", r, x, None, None))
            if seen < 2:
                ops.append(("remove_edge", r, x))
            seen += 1
    for raw, x in records:
        ops.append(("remove_edge", raw, x))
    for n in U:
        ops.append(("remove_node", n, False))
        ops.append(("remove_node", n, True))
    ops.append(("remove_node", absent, False))
    if absent_record is not None:
        ops.append(("remove_edge",) + tuple(absent_record))
    raw0, x0 = records[0]
    ops.append(("add_edge", raw0, x0, 2, None))  # weight 2: rejected when unweighted
    for bad in invalid_extras:
        ops.append(("add_edge", raw0, bad, None, None))
    if has_set_weight:
        rawl, xl = records[-1]
        ops.append(("set_weight", rawl, xl, 3))
        ops.append(("set_weight", rawl, xl, 1))
    if hg_attr:
        ops.append(("set_attr_hg", "x", 1))
    if has_clear:
        ops.append(("clear",))
    if has_copy:
        ops.append(("copy",))
    if batches:
        (r1, x1), (r2, x2) = records[0], records[-1]
        ops.append(("add_nodes", (U[0], U[1]), None))
        ops.append(("add_edges", (r1, r2), (x1, x2) if x1 is not None else None, None, None))
        u = unsorted_raw(kind_name, r2)
        if u is not None:
            ops.append(("add_edges", (r2, u), (x2, x2) if x2 is not None else None, None, None))
        ops.append(("add_edges", (r1, r2), (x1, x2) if x1 is not None else None, None, (MD1,)))  # short metadata list -> rejected
        for bad in invalid_extras[:1]:
            ops.append(("add_edges", (r1, r2), (x1, bad), None, None))  # second element invalid -> rejected, nothing added
        if x1 is not None:
            ops.append(("add_edges", (r1, r2), (x1,), None, None))  # fewer times/layers than hyperedges -> rejected
    return ops


def record_weights(kind_name, U, records, absent_record=None, has_clear=True, batch_pairs=()):
    ops = []
    for n in U:
        ops.append(("add_node", n, None))
    for raw, x in records:
        for w in (None, 1, 2):
            ops.append(("add_edge", raw, x, w, None))
        r = unsorted_raw(kind_name, raw)
        if r is not None:
            ops.append(("add_edge", r, x, 2, None))
            ops.append(("set_weight", r, x, 2))
        ops.append(("remove_edge", raw, x))
        ops.append(("set_weight", raw, x, 1))
        ops.append(("set_weight", raw, x, 3))
    ops.append(("add_edge", records[0][0], records[0][1], 0, None))  # weight 0 is a weight like any other
    ops.append(("set_weight", records[-1][0], records[-1][1], 0))
    for n in U:
        ops.append(("remove_node", n, False))
        ops.append(("remove_node", n, True))
    if absent_record is not None:
        ops.append(("set_weight",) + tuple(absent_record) + (2,))
    for (r1, x1), (r2, x2) in batch_pairs:
        xs = (x1, x2) if x1 is not None or x2 is not None else None
        ops.append(("add_edges", (r1, r2), xs, (2, 1), None))
        ops.append(("add_edges", (r1, r2), xs, (2,), None))  # length mismatch -> rejected
    if has_clear:
        ops.append(("clear",))
    return ops


def record_metadata(kind_name, U, records, absent=99, has_node_set=True, has_edge_set=True, has_clear=True,
                    has_copy=True, add_nodes_md=True, rich=False):
    ops = []
    for n in U:
        ops.append(("add_node", n, None))
        ops.append(("add_node", n, MD1))
        if has_node_set:
            ops.append(("set_node_metadata", n, ()))
        ops.append(("set_attr_node", n, "k", 1))
        ops.append(("rm_attr_node", n, "k"))
        ops.append(("remove_node", n, False))
        ops.append(("remove_node", n, True))
        if rich and has_node_set:
            ops.append(("set_node_metadata", n, MD2))
    for raw, x in records:
        ops.append(("add_edge", raw, x, None, None))
        ops.append(("add_edge", raw, x, None, MD1))
        if has_edge_set:
            ops.append(("set_edge_metadata", raw, x, MD2))
        ops.append(("set_attr_edge", raw, x, "k", 1))
        ops.append(("set_attr_edge", raw, x, "k", 2))
        ops.append(("rm_attr_edge", raw, x, "k"))
        ops.append(("remove_edge", raw, x))
    for raw, x in records:
        r = unsorted_raw(kind_name, raw)
        if r is not None:
            ops.append(("add_edge", r, x, None, MD2))
            ops.append(("set_attr_edge", r, x, "k", 2))
            ops.append(("rm_attr_edge", r, x, "k"))
            break
    ops.append(("add_nodes", (U[0], U[1]), None))
    if len(records) >= 2:
        (r1, x1), (r2, x2) = records[0], records[1]
        ops.append(("add_edges", (r1, r2), (x1, x2) if x1 is not None or x2 is not None else None, None, None))
    if add_nodes_md:
        ops.append(("add_nodes", (U[0], U[1]), ((U[0], MD1), (U[1], MD1))))
        ops.append(("add_nodes", (U[0], U[1]), ((U[0], MD1),)))
    ops.append(("set_attr_node", absent, "k", 1))
    if has_clear:
        ops.append(("clear",))
    if has_copy:
        ops.append(("copy",))
    return ops


def churn(records, absent_record=None):
    """tiny alphabet for deep histories: plain insertions and removals of a few records (id reuse, stale tables)"""
    ops = []
    for raw, x in records:
        ops.append(("add_edge", raw, x, None, None))
    for raw, x in records[:-1]:
        ops.append(("remove_edge", raw, x))
    return ops
