"""hgxmc: bounded-exhaustive model checking harnesses for hypergraphx (see /verif/DESIGN.md)."""
