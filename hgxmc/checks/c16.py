"""C16 - Hy-MMSBM sampler yields valid hypergraphs respecting conditioning and seed (E3 through the public generator)."""
import itertools
import math
from collections import Counter

import numpy as np

from .. import choice as CH
from ..core import Violation
from ..e4 import run_e4

LEVEL = "model_checking"
PROP = "C16"

PARAMS = {
    4: (np.array([[1.0, 0.2], [0.8, 0.4], [0.3, 1.0], [0.5, 0.9]]), np.array([[1.5, 0.3], [0.3, 1.0]])),
    5: (np.array([[1.0, 0.2], [0.8, 0.4], [0.3, 1.0], [0.5, 0.9], [0.7, 0.7]]), np.array([[1.2, 0.0], [0.0, 0.9]])),
    # hard disjoint communities with a diagonal affinity: every cross-community pair has Poisson mean exactly 0 (numerical underflow
    # guard of the weight draw), same-community pairs and all triples have positive means
    "hard4": (np.array([[1.0, 0.0], [0.0, 1.0], [1.0, 0.0], [0.0, 1.0]]), np.array([[1.0, 0.0], [0.0, 1.0]])),
}


def menus():
    def rnd(shape):
        n = int(shape[0]) if isinstance(shape, tuple) else int(shape)
        return [np.full(n, 0.3), np.full(n, 0.6), np.full(n, 0.95), np.array([0.3 if i % 2 else 0.95 for i in range(n)])]

    def poisson(lam):
        lam = np.asarray(lam, dtype=float)
        return [np.zeros_like(lam), np.ceil(lam)]

    def normal(loc, scale):
        loc, scale = np.asarray(loc, dtype=float), np.asarray(scale, dtype=float)
        return [loc - scale, loc, loc + scale]

    return {"random": rnd, "poisson": poisson, "normal": normal}


def hg_edges(h):
    return sorted((tuple(sorted(e)), h.get_weight(e)) for e in h.get_edges())


def basic_checks(h, bad, allowed_nodes, max_size):
    if not h.is_weighted():
        bad("not-weighted", "sample is not weighted")
    E = [tuple(e) for e in h.get_edges()]
    if len({tuple(sorted(e)) for e in E}) != len(E):
        bad("repeated-hyperedge", "repeated hyperedge in %r" % (E,))
    for e in E:
        wt = h.get_weight(e)
        if not (isinstance(wt, (int, np.integer)) and wt > 0):
            bad("weight", "weight %r of %r is not a positive integer" % (wt, e))
        if len(e) < 2 or len(set(e)) != len(e) or (max_size is not None and len(e) > max_size):
            bad("size", "hyperedge %r has an inadmissible size (max %r)" % (e, max_size))
        if not set(e) <= set(allowed_nodes):
            bad("foreign-node", "hyperedge %r uses nodes outside %r" % (e, sorted(allowed_nodes, key=repr)))


def run_sampler(ch, N, kwargs, sample_kwargs, n_samples, initial=None, scale=1.0):
    import hypergraphx.communities.hy_mmsbm.model as M
    import hypergraphx.generation.hy_mmsbm_sampling as S
    from hypergraphx import Hypergraph

    u, w = PARAMS[N]
    fac = CH.GeneratorFactory(ch, np, menus())
    with CH.patched(S, np=CH.NumpyShim(np, fac)), CH.patched(M, np=CH.NumpyShim(np, fac)):
        sp = S.HyMMSBMSampler(u=u.copy() * scale, w=w.copy(), **kwargs)
        skw = dict(sample_kwargs)
        if initial is not None:
            labels, edges = initial
            # built so that the order of first appearance of the nodes is NOT their sorted order
            h0 = Hypergraph()
            for e in reversed(edges):
                h0.add_edge(tuple(reversed(e)))
            for n in reversed(labels):
                h0.add_node(n)
            skw["initial_hyg"] = h0
        gen = sp.sample(**skw)
        outs = [next(gen) for _ in range(n_samples)]
    return outs, sp, fac


def check_initial(item, acc):
    labels, edges, burn, inter, n_samples, N = item
    wit = {"mode": "initial", "labels": list(labels), "edges": [list(e) for e in edges], "burn_in": burn, "intermediate": inter, "samples": n_samples, "N": N}
    size = len(edges) + burn + inter
    deg0 = Counter(v for e in edges for v in e)
    dim0 = Counter(len(e) for e in edges)
    outs_seen = set()

    def run(ch):
        return run_sampler(ch, N, dict(burn_in_steps=burn, intermediate_steps=inter, seed=5), {}, n_samples, initial=(labels, edges))

    try:
        for script, res, ch, pruned in acc.explore(run, label=item):
            acc.evaluations += 1
            outs, sp, fac = res
            ws = dict(wit, script=list(script))

            def bad(what, msg):
                acc.violations.append(Violation("initial/%s" % what, "%s; %r" % (msg, ws), ws, size))

            for h in outs:
                basic_checks(h, bad, labels, None)
                E = [tuple(sorted(e)) for e in h.get_edges()]
                deg = Counter(v for e in E for v in e)
                dim = Counter(len(e) for e in E)
                if any(deg[v] > deg0[v] for v in deg):
                    bad("degree-exceeded", "degrees %r exceed the initial ones %r" % (dict(deg), dict(deg0)))
                if any(dim[k] > dim0[k] for k in dim):
                    bad("size-count-exceeded", "size counts %r exceed the initial ones %r" % (dict(dim), dict(dim0)))
                if len(E) == len(edges) and (deg != deg0 or dim != dim0):
                    bad("not-preserved", "no hyperedges coincided but degrees/sizes changed: %r vs %r" % (sorted(E), sorted(edges)))
                # only hyperedges of the same size can coincide, and merging never removes the last one of a size
                if any(dim[k] < 1 for k in dim0):
                    bad("size-vanished", "a conditioned size has no hyperedge left (coincidences cannot cause that): sizes %r, conditioned %r" % (dict(dim), dict(dim0)))
                outs_seen.add(tuple(E))
            unseeded = [g.tag for g in fac.made if g.seed is None and g.draws > 0]
            if unseeded:
                bad("unseeded-draw", "draws were taken from generators created without the sampler's seed: %r" % unseeded)
    except CH.UnownedRandomness:
        raise
    except Exception as e:
        acc.violations.append(Violation("initial/exception", "raised %s: %s; %r" % (type(e).__name__, e, wit), wit, size))
        return
    acc.outcomes.add(hash((labels, edges, burn, inter, n_samples, len(outs_seen))))
    acc.count("initial-configs")
    if len(outs_seen) >= 2:
        acc.nontrivial.add(hash((labels, edges, burn, inter, n_samples)))
        acc.count("initial-configs-with-several-outcomes")


def check_sequences(item, acc):
    deg_seq, dim_seq, burn, inter, N = item
    wit = {"mode": "sequences", "deg_seq": list(deg_seq), "dim_seq": {str(k): v for k, v in dim_seq}, "burn_in": burn, "intermediate": inter, "N": N}
    size = sum(deg_seq)
    dim0 = dict(dim_seq)
    outs_seen = set()

    def run(ch):
        return run_sampler(ch, N, dict(burn_in_steps=burn, intermediate_steps=inter, seed=5), dict(deg_seq=np.array(deg_seq, dtype=float), dim_seq=dict(dim_seq)), 1)

    try:
        for script, res, ch, pruned in acc.explore(run, label=item, horizon=80):
            acc.evaluations += 1
            if pruned:
                acc.count("pruned-horizon")
                continue
            outs, sp, fac = res
            ws = dict(wit, script=list(script))

            def bad(what, msg):
                acc.violations.append(Violation("sequences/%s" % what, "%s; matching_sequences=%r; %r" % (msg, sp.matching_sequences, ws), ws, size))

            h = outs[0]
            basic_checks(h, bad, range(N), None)
            E = [tuple(sorted(e)) for e in h.get_edges()]
            deg = Counter(v for e in E for v in e)
            dim = Counter(len(e) for e in E)
            total = sum(dim0.values())
            if any(dim[k] > dim0.get(k, 0) for k in dim):
                bad("size-count-exceeded", "size counts %r exceed the conditioned ones %r" % (dict(dim), dim0))
            if len(E) == total and dict(dim) != {k: v for k, v in dim0.items() if v}:
                bad("size-count-not-met", "no hyperedges coincided but size counts %r differ from %r" % (dict(dim), dim0))
            if any(v >= 1 and dim[k] < 1 for k, v in dim0.items()):
                bad("size-vanished", "a conditioned size has no hyperedge left (coincidences cannot cause that): sizes %r, conditioned %r" % (dict(dim), dim0))
            if sp.matching_sequences:
                if any(deg[v] > deg_seq[v] for v in deg):
                    bad("degree-exceeded", "degrees %r exceed the conditioned ones %r although the sampler reports matching sequences" % (dict(deg), list(deg_seq)))
                if len(E) == total and any(deg[v] != deg_seq[v] for v in range(N)):
                    bad("degree-not-met", "no hyperedges coincided but degrees %r differ from %r" % ([deg[v] for v in range(N)], list(deg_seq)))
            if sp.matching_sequences not in (True, False):
                bad("flag", "matching_sequences is %r" % (sp.matching_sequences,))
            outs_seen.add((tuple(E), sp.matching_sequences))
            unseeded = [g.tag for g in fac.made if g.seed is None and g.draws > 0]
            if unseeded:
                bad("unseeded-draw", "draws were taken from generators created without the sampler's seed: %r" % unseeded)
    except CH.UnownedRandomness:
        raise
    except Exception as e:
        acc.violations.append(Violation("sequences/exception", "raised %s: %s; %r" % (type(e).__name__, e, wit), wit, size))
        return
    acc.outcomes.add(hash((deg_seq, dim_seq, burn, inter, len(outs_seen))))
    acc.count("sequence-configs")
    if any(m for _, m in outs_seen):
        acc.count("sequence-configs-matching")
    if len(outs_seen) >= 2:
        acc.nontrivial.add(hash((deg_seq, dim_seq, burn, inter)))


def check_model(item, acc):
    """sampling from the model itself (sequences drawn from the inner model): validity + every draw seeded"""
    N, max_size, exact_dyadic, burn, inter = item
    wit = {"mode": "model", "N": N, "max_hye_size": max_size, "exact_dyadic_sampling": exact_dyadic, "burn_in": burn, "intermediate": inter}

    def run(ch):
        try:
            return run_sampler(ch, N, dict(max_hye_size=max_size, exact_dyadic_sampling=exact_dyadic, burn_in_steps=burn, intermediate_steps=inter, seed=5), {}, 1, scale=2.0)
        except ValueError as e:
            if "larger sample than population" in str(e):
                return None  # the drawn sequences gave fewer than two hyperedges: the chain cannot move (outside the domain)
            raise

    seen = set()
    try:
        for script, res, ch, pruned in acc.explore(run, label=item, horizon=60, max_dev=2):
            acc.evaluations += 1
            if pruned:
                acc.count("pruned-horizon")
                continue
            if res is None:
                acc.count("model-fewer-than-two-hyperedges")
                continue
            outs, sp, fac = res
            ws = dict(wit, script=list(script))

            def bad(what, msg):
                acc.violations.append(Violation("model/%s" % what, "%s; %r" % (msg, ws), ws, N))

            basic_checks(outs[0], bad, range(N), max_size if max_size else N)
            seen.add(tuple(sorted(tuple(sorted(e)) for e in outs[0].get_edges())))
            unseeded = [g.tag for g in fac.made if g.seed is None and g.draws > 0]
            if unseeded:
                bad("unseeded-draw", "the result depends on draws from a generator that was not created from the sampler's seed (%r): same seed, different samples" % unseeded)
    except CH.UnownedRandomness:
        raise
    except Exception as e:
        acc.violations.append(Violation("model/exception", "raised %s: %s; %r" % (type(e).__name__, e, wit), wit, N))
        return
    if len(seen) >= 2:
        acc.nontrivial.add(hash(("model", N, max_size, exact_dyadic, burn, inter)))
    acc.outcomes.add(hash(("model", N, max_size, exact_dyadic, len(seen))))


def check_seed_real(item, acc):
    """two samplers with the same parameters and seed, real generators: same sequence of samples"""
    from hypergraphx.generation.hy_mmsbm_sampling import HyMMSBMSampler

    N, seed, mode = item
    u, w = PARAMS[N]
    acc.evaluations += 1
    seqs = []
    for rep in range(2):
        np.random.seed(rep)  # perturb the global state: it must play no role
        sp = HyMMSBMSampler(u=u * 3, w=w * 3, max_hye_size=3, burn_in_steps=3, intermediate_steps=2, seed=seed)
        deg = np.array([2.0, 2.0, 1.0, 1.0] + [0.0] * (N - 4))
        kw = {"model": {}, "sequences": dict(deg_seq=deg, dim_seq={2: 3}),
              # the model's parameters are rescaled first (to an average degree / to the given sequence), the rest is drawn from it
              "rescaled-avg": dict(avg_deg=4.0, allow_rescaling=True), "rescaled-deg": dict(deg_seq=deg, allow_rescaling=True),
              "rescaled-dim": dict(dim_seq={2: 2, 3: 1}, allow_rescaling=True), "deg-only": dict(deg_seq=deg), "dim-only": dict(dim_seq={2: 2, 3: 1})}[mode]
        try:
            g = sp.sample(**kw)
            seqs.append([hg_edges(next(g)) for _ in range(3)])
        except Exception as e:
            # e.g. fewer than two hyperedges were drawn and the chain cannot move (outside the domain): for the seed clause the two
            # runs only have to agree, also on that
            seqs.append(("EXC", type(e).__name__, str(e)[:80]))
    if seqs[0] != seqs[1]:
        acc.violations.append(Violation("seed/%s/not-reproducible" % mode, "seed %r (N=%d, %s): first run %r, second run %r" % (seed, N, mode, seqs[0], seqs[1]),
                                        {"mode": "seed-real", "N": N, "seed": seed, "how": mode}, 1))
    elif not isinstance(seqs[0], tuple):
        acc.nontrivial.add(hash(("seed", N, seed, mode)))
    else:
        acc.count("seed-runs-ending-in-the-same-exception")


def items(tier):
    labels = (2, 5, 7, 11)
    cands = [c for r in (2, 3) for c in itertools.combinations(labels, r)]
    two = list(itertools.combinations(cands, 2))
    three = list(itertools.combinations(cands, 3))
    def mixing(es):
        for a, b in itertools.combinations(es, 2):
            a, b = set(a), set(b)
            if math.comb(len(a ^ b), len(a - b)) > (2 if len(a) == len(b) else 1):
                return True
        return False

    mix2 = [es for es in two if mixing(es)]
    non2 = [es for es in two if not mixing(es)]
    mix3 = [es for es in three if mixing(es)]
    if tier == "quick":
        inits = mix2[::3] + non2[::6] + mix3[::60]
        step_cfgs = [(0, 0, 1), (1, 0, 1), (0, 1, 1), (1, 1, 1), (0, 1, 2)]
    else:
        inits = mix2[::2] + non2[::4] + mix3[::30]
        step_cfgs = [(0, 0, 1), (1, 0, 1), (0, 1, 1), (1, 1, 1), (0, 1, 2), (1, 2, 1)]
    for es in inits:
        for burn, inter, ns in step_cfgs:
            if tier == "quick" and ((len(es) == 3 and burn + inter * ns > 1) or (ns == 2 and (es not in inits[::5] or not set(es[0]) & set(es[1])))):
                continue
            if tier != "quick" and ((len(es) == 3 and burn + inter * ns > 2) or (burn + inter * ns > 2 and not set(es[0]) & set(es[1]))):
                continue
            yield ("init", (labels, es, burn, inter, ns, 4))
    yield ("init", (("a", "b", "c", "d", "e"), (("a", "b"), ("c", "d", "e")), 1, 1, 1, 5))
    # zero-affinity hyperedges (Poisson mean 0 before the underflow guard): they must still come out with a positive integer weight
    for es in (((2, 5), (7, 11)), ((2, 5), (5, 7)), ((2, 11), (5, 7, 11)), ((2, 5), (2, 7), (7, 11)), ((2, 7), (5, 11))):
        for burn, inter, ns in ((0, 0, 1), (0, 1, 1)):
            if len(es) == 3 and inter:
                continue
            yield ("init", (labels, es, burn, inter, ns, "hard4"))
    # two consecutive samples from one generator, with chain moves in between (state carried from one sample to the next)
    for es in (((2, 5), (5, 7, 11)), ((2, 5), (7, 11)), ((2, 5, 7), (7, 11))):
        if tier == "quick" and es == ((2, 5), (7, 11)):
            continue  # two disjoint pairs: > 2e4 executions for two samples - thorough tier only
        yield ("init", (labels, es, 0, 1, 2, 4))
    # a hyperedge containing every node of the model (size N)
    yield ("init", (labels, ((2, 5, 7, 11), (2, 5)), 0, 1, 1, 4))
    yield ("init", (labels, ((2, 5, 7, 11), (5, 7, 11)), 1, 0, 1, 4))
    yield ("seq", ((2, 2, 1, 1), ((2, 1), (4, 1)), 0, 0, 4))
    yield ("seq", ((2, 1, 1, 1, 1), ((5, 1), (2, 1))[::-1], 0, 0, 5))
    # every (deg_seq, dim_seq) with equal totals for N = 4, sizes {2,3}, <= 3 hyperedges
    for n2 in range(0, 4):
        for n3 in range(0, 4 - n2):
            if n2 + n3 < 2:
                continue  # the chain needs two hyperedges to make a move (as for initial hypergraphs)
            tot = 2 * n2 + 3 * n3
            dim = tuple((k, v) for k, v in ((2, n2), (3, n3)) if v)
            for deg in itertools.product(range(0, 10), repeat=4):
                if sum(deg) != tot or list(deg) != sorted(deg, reverse=True):
                    continue
                if max(deg) > 3:
                    # very skewed sequences (several zero-degree padding nodes per hyperedge): construction only
                    yield ("seq", (deg, dim, 0, 0, 4))
                    continue
                for burn, inter in ((0, 0), (0, 1)) if tier == "quick" else ((0, 0), (0, 1), (1, 1)):
                    if tier == "quick" and inter and n2 + n3 == 3 and deg == (2, 2, 2, 2):
                        continue  # 3e4 executions: thorough tier only
                    if burn and inter and n2 + n3 == 3:
                        continue  # two chain steps on three hyperedges: > 1.5e5 executions in a single shard
                    yield ("seq", (deg, dim, burn, inter, 4))
    for N in (4, 5):
        for exact in (True, False):
            if N == 4 or (tier != "quick" and exact):
                yield ("model", (N, 3, exact, 0, 1))
        for seed in (0, 1, 2):
            yield ("seed", (N, seed, "model"))
            yield ("seed", (N, seed, "sequences"))
            for mode in ("rescaled-avg", "rescaled-deg", "rescaled-dim", "deg-only", "dim-only"):
                yield ("seed", (N, seed, mode))


def worker(part, acc):
    for kind, item in part:
        {"init": check_initial, "seq": check_sequences, "model": check_model, "seed": check_seed_real}[kind](item, acc)


def run(ctx):
    from ..seams import validate as _validate_seams

    seam_report = _validate_seams(PROP)  # real random sources under a recorder: every API reached must be modelled (else exit 2)
    its = list(items(ctx.tier))
    k = ctx.jobs * 8
    shards = [its[i::k] for i in range(k)]
    ev, nt, oc = run_e4(ctx, [it for s in shards for it in s], worker, nchunks=k, budget=8000000 if ctx.tier == "quick" else 80000000, config_cap=20000 if ctx.tier == "quick" else 150000)
    kinds = Counter(kd for kd, _ in its)
    ctx.part("inputs", executions=ev, **dict(kinds))
    if not ctx.violations:
        ctx.require(ctx.counts.get("initial-configs-with-several-outcomes", 0) * 4 >= ctx.counts.get("initial-configs", 1),
                    "too few initial-hypergraph configurations with several outcomes (%d of %d)" % (ctx.counts.get("initial-configs-with-several-outcomes", 0), ctx.counts.get("initial-configs", 1)))
        ctx.require(ctx.counts.get("sequence-configs-matching", 0) >= 5, "no (deg_seq, dim_seq) pair was reported as matching")
    i = [x for x in its if x[0] == "init"]
    it = i[(ctx.seed * 3 + 1) % len(i)][1]
    ctx.sample({"initial hypergraph": {"labels": list(it[0]), "edges": [list(e) for e in it[1]], "burn_in": it[2], "intermediate": it[3], "samples": it[4]}})
    s = [x for x in its if x[0] == "seq"]
    it = s[(ctx.seed * 5 + 2) % len(s)][1]
    ctx.sample({"sequences": {"deg_seq": list(it[0]), "dim_seq": dict(it[1]), "burn_in": it[2], "intermediate": it[3]}})
    cov = {
        "seam_validation": seam_report,
        "states": len(oc), "transitions": ev, "traces_validated_against_impl": ev, "evaluations": ev, "distinct_nontrivial": len(nt), "exhaustive": not (ctx.counts.get("configurations-capped-by-budget", 0) or ctx.counts.get("configurations-skipped-budget-exhausted", 0)),
        "configurations_capped_or_skipped_by_execution_budget": ctx.counts.get("configurations-capped-by-budget", 0) + ctx.counts.get("configurations-skipped-budget-exhausted", 0),
        "pruned_at_horizon": ctx.counts.get("pruned-horizon", 0),
        "rule": "through the public generator HyMMSBMSampler(...).sample(...): every ordered pair draw, every reshuffle subset, both outcomes of the MH accept "
                "coin unless forced, quantile vectors of the truncated Poisson from a 4-element menu; initial hypergraphs = hypergraphs with 2-3 hyperedges of "
                "size 2-3 over the labels {2,5,7,11} (sub-family) x burn-in/thinning <= 1(2) x 1-2 samples (full tree); (deg_seq, dim_seq) = every non-increasing "
                "degree sequence with equal totals for N=4, sizes {2,3}, <=3 hyperedges, every tie-break of the greedy construction; sampling from the model "
                "itself deviation-bounded (<=2) with Poisson/normal menus. Both numpy Generators are handed out by a factory that records the seed each was "
                "created with: any consumed draw from an unseeded generator is a violation, confirmed by running two real samplers with equal seeds.",
    }
    return ctx.finish(cov, assumptions=["np.random.default_rng is the only way the two modules obtain randomness (seam: module-level name np)",
                                        "quantile / Poisson / normal draws range over finite menus (alphabet limit)"])


def replay(witness, key=None):
    from ..e4 import Acc

    acc = Acc()
    m = witness["mode"]
    if m == "initial":
        check_initial((tuple(witness["labels"]), tuple(tuple(e) for e in witness["edges"]), witness["burn_in"], witness["intermediate"], witness["samples"], witness["N"]), acc)
    elif m == "sequences":
        check_sequences((tuple(witness["deg_seq"]), tuple((int(k), v) for k, v in witness["dim_seq"].items()), witness["burn_in"], witness["intermediate"], witness["N"]), acc)
    elif m == "model":
        check_model((witness["N"], witness["max_hye_size"], witness["exact_dyadic_sampling"], witness["burn_in"], witness["intermediate"]), acc)
    else:
        check_seed_real((witness["N"], witness["seed"], witness["how"]), acc)
    hit = [v for v in acc.violations if key is None or v.key == key or PROP + "/" + v.key == key]
    for v in hit[:3]:
        print("   " + v.msg[:700])
    return bool(hit)
