"""C04 - MultiplexHypergraph keeps (hyperedge, layer) records; aggregation sums layers (E2 + E1)."""
from .. import alphabets as A
from ..explore import Profile
from ..specs import MultiplexSpec
from . import _containers as CC

LEVEL = "model_checking"
PROP = "C04"
KN = "MultiplexHypergraph"
NOPE = dict(has_clear=False, has_copy=False)


def profiles(tier):
    P = []
    U2 = (1, 2)
    c2 = [(1,), (1, 2), (2,)]
    spec2 = MultiplexSpec(U2, 99, c2, layers=("a", "b"))
    recs2 = [((1, 2), "a"), ((1, 2), "b"), ((1,), "a"), ((2,), "b"), ((1,), "b")]
    st = A.record_structure(KN, U2, recs2, absent_record=((1, 99), "a"), **NOPE)
    P.append(("closure", Profile("structure", spec2, False, st), {}))
    wrecs = [((1, 2), "a"), ((1, 2), "b"), ((1,), "a")]
    wops = A.record_weights(KN, U2, wrecs, absent_record=((1, 99), "a"), has_clear=False,
                            batch_pairs=[(wrecs[0], wrecs[1]), (wrecs[0], wrecs[2])])  # same node set in two layers, one weighted batch
    P.append(("closure", Profile("weights", spec2, True, wops, enabled=A.weight_cap(2 if tier == "quick" else 3)), {}))
    mrecs = [((1, 2), "a"), ((1,), "a")] if tier == "quick" else [((1, 2), "a"), ((1,), "a"), ((1, 2), "b")]
    mops = A.record_metadata(KN, U2, mrecs, has_node_set=False, has_edge_set=False, **NOPE)
    P.append(("closure", Profile("metadata", spec2, False, mops), {}))
    flip = A.record_weights(KN, U2, wrecs[:2], has_clear=False, batch_pairs=[(wrecs[0], wrecs[1])])
    P.append(("closure", Profile("weights-on-unweighted", spec2, False, flip, enabled=A.weight_cap(3)), {}))
    d = 3 if tier == "quick" else 5
    U3 = (1, 2, 3)
    c3 = [(1, 2), (2, 3), (1, 2, 3), (1,)]
    spec3 = MultiplexSpec(U3, 99, c3, layers=("a", "b"))
    hrecs = [((1, 2), "a"), ((1, 2, 3), "a"), ((1, 2, 3), "b"), ((2, 3), "b")]
    hs = A.record_structure(KN, U3, hrecs, absent_record=((1, 99), "a"), batches=False, **NOPE)
    P.append(("histories", Profile("hist-structure", spec3, False, hs), {"depth": d}))
    hw = A.record_weights(KN, U3, hrecs[:3], has_clear=False, batch_pairs=[(hrecs[1], hrecs[2])])
    P.append(("histories", Profile("hist-weights", spec3, True, hw), {"depth": d}))
    # deep churn histories over a tiny alphabet (insert / remove of four records): id reuse and stale tables need 5+ steps
    P.append(("histories", Profile("hist-churn", spec3, False, A.churn([((1, 2), "a"), ((1, 2, 3), "a"), ((2, 3), "b"), ((1, 2), "b")])), {"depth": 8 if tier == "quick" else 10}))
    P.append(("histories", Profile("hist-churn-weighted", spec3, True, A.churn([((1, 2), "a"), ((1, 2, 3), "a"), ((2, 3), "b"), ((1, 2), "b")])), {"depth": 6 if tier == "quick" else 8}))
    if tier == "thorough":
        spec3c = MultiplexSpec(U3, 99, c3 + [(3,)], layers=("a", "b", "c"))
        recs3 = hrecs + [((3,), "c"), ((1, 2), "c")]
        st3 = A.record_structure(KN, U3, recs3, absent_record=((1, 99), "a"), batches=False, **NOPE)
        P.append(("closure", Profile("structure-3", spec3c, False, st3), {"reps": 2}))
    return P


def run(ctx):
    return CC.run_container_check(ctx, profiles(ctx.tier))


def replay(witness, key=None):
    return CC.replay(witness, key)
