"""C01 - Hypergraph answers every query as the abstract hypergraph of its history.

E2 (closure of the reference model, every transition replayed on the real class from up to 3
representative histories) + E1 (all histories to a depth, merged only on identical private tables).
"""
from .. import alphabets as A
from ..explore import Profile, explore
from ..specs import HypergraphSpec
from . import _containers as CC

LEVEL = "model_checking"
PROP = "C01"


def profiles(tier):
    U = (1, 2, 3)
    spec = HypergraphSpec(U, 99)
    P = []
    P.append(("closure", Profile("structure", spec, False, A.hypergraph_structure(U)), {}))
    cap = 3
    U2 = (1, 2)
    spec2 = HypergraphSpec(U2, 99)
    P.append(("closure", Profile("weights", spec2, True, A.hypergraph_weights(U2, [(1,), (1, 2), (2,)]), enabled=A.weight_cap(cap)), {}))
    if tier == "thorough":
        wedges = [(1,), (1, 2), (2, 3), (1, 2, 3)]
        P.append(("closure", Profile("weights-3", spec, True, A.hypergraph_weights(U, wedges), enabled=A.weight_cap(2)), {"reps": 2}))
        P.append(("closure", Profile("structure-weighted", spec, True, A.hypergraph_structure(U), enabled=A.weight_cap(1)), {}))
    U2 = (1, 2)
    spec2 = HypergraphSpec(U2, 99)
    P.append(("closure", Profile("metadata", spec2, False, A.hypergraph_metadata(U2, [(1,), (1, 2)])), {}))
    # unweighted container fed a weighted batch (weightedness may flip): small universe, capped
    flip_ops = A.hypergraph_weights(U2, [(1,), (1, 2), (2,)])
    P.append(("closure", Profile("weights-on-unweighted", spec2, False, flip_ops, enabled=A.weight_cap(cap)), {}))
    # E1: histories
    d = 3 if tier == "quick" else 5
    hs_ops = A.hypergraph_structure(U, edges=[(1,), (1, 2), (2, 3), (1, 2, 3)], batches=False)
    P.append(("histories", Profile("hist-structure", spec, False, hs_ops, tag="structure"), {"depth": d}))
    hw_ops = A.hypergraph_weights(U, [(1, 2), (1, 2, 3), (1,)])
    P.append(("histories", Profile("hist-weights", spec, True, hw_ops, tag="weights"), {"depth": d}))
    # deep churn histories over a tiny alphabet (insert / remove of four records): id reuse and stale tables need 5+ steps
    P.append(("histories", Profile("hist-churn", spec, False, A.churn([((1, 2), None), ((2, 3), None), ((1, 2, 3), None), ((3,), None)])), {"depth": 8 if tier == "quick" else 10}))
    P.append(("histories", Profile("hist-churn-weighted", spec, True, A.churn([((1, 2), None), ((2, 3), None), ((1, 2, 3), None), ((3,), None)])), {"depth": 6 if tier == "quick" else 8}))
    if tier == "thorough":
        Us = ("a", "b", "c")
        specs = HypergraphSpec(Us, "zz")
        P.append(("closure", Profile("structure-str", specs, False, A.hypergraph_structure(Us, absent="zz")), {}))
        U4 = (1, 2, 3, 4)
        spec4 = HypergraphSpec(U4, 99)
        e4 = A.subsets(U4, 1, 3)
        P.append(("closure", Profile("structure-4", spec4, False, A.hypergraph_structure(U4, edges=e4, batches=False)), {"reps": 1}))
        hm_ops = A.hypergraph_metadata(U2, [(1,), (1, 2)], rich=True)
        P.append(("histories", Profile("hist-metadata", spec2, False, hm_ops, tag="metadata"), {"depth": 3}))
        P.append(("closure", Profile("metadata-rich", spec2, False, [o for o in hm_ops if o[0] != "set_attr_hg"]), {"reps": 1}))
    return P


def run(ctx):
    return CC.run_container_check(ctx, profiles(ctx.tier), min_model_states={"structure": 159})


def replay(witness, key=None):
    return CC.replay(witness, key)
