"""C07 - hash_hypergraph is a canonical fingerprint: equal content iff equal hash.

Explicit-state exploration of the real containers (no reference model needed): states are grouped by
their *publicly observable content*; up to `reps` representatives per content with different private
tables are expanded, and the (content, hash) pair of the target of EVERY transition is recorded.
 equality direction : every content group has exactly one hash (all histories reaching it agree)
 difference direction: every hash belongs to exactly one content (over all four container types)
 purity             : hashing leaves the content unchanged
"""
import contextlib
import copy
import io
import itertools

from .. import alphabets as A
from ..core import Violation
from ..explore import build, fingerprint
from ..par import chunks, pmap
from ..specs import DirectedSpec, HypergraphSpec, MultiplexSpec, TemporalSpec, cmd, make_spec, q
from . import c01, c02, c03, c04

LEVEL = "model_checking"
PROP = "C07"


def full_content(spec, h):
    c = spec.content(h)
    # hypergraph-level metadata in full (reserved keys included): it is part of the hashed content
    return c[:-1] + (q(lambda: cmd(h.get_hypergraph_metadata())),)


def _work(spec, weighted, ops, hists):
    from hypergraphx.readwrite.hashing import hash_hypergraph

    out = []
    with contextlib.redirect_stdout(io.StringIO()):
        for hist in hists:
            impl = build(spec, weighted, hist)
            res = []
            for op in ops:
                impl2 = copy.deepcopy(impl)
                try:
                    impl2 = spec.apply(impl2, op)
                except Exception:
                    res.append(None)
                    continue
                c1 = full_content(spec, impl2)
                try:
                    hv = hash_hypergraph(impl2)
                except Exception as e:
                    hv = "EXC:" + type(e).__name__
                c2 = full_content(spec, impl2)
                res.append((c1, hv, c1 == c2, fingerprint(impl2)))
            out.append(res)
    return out


COMPONENTS = ("type", "weighted", "nodes/node-metadata", "hyperedges/weights/edge-metadata", "hypergraph-metadata")


def diff_component(a, b):
    for i, (x, y) in enumerate(zip(a, b)):
        if x != y:
            return COMPONENTS[i]
    return "?"


def explore_hash(ctx, name, spec, weighted, ops, reps, depth, table, byhash):
    """table: content -> {hash: history}; byhash: hash -> {content: history}"""
    c0 = None
    seen = {}  # content -> set of fingerprints expanded
    frontier = [()]
    level = 0
    n_trans = 0
    n_exec = 0
    while frontier and (depth is None or level < depth):
        parts = chunks(frontier, max(1, ctx.jobs * 4))
        results = pmap(lambda hs: _work(spec, weighted, ops, hs), parts, jobs=ctx.jobs)
        nxt = []
        for part, res in zip(parts, results):
            for hist, rs in zip(part, res):
                for op, r in zip(ops, rs):
                    n_exec += 1
                    if r is None:
                        continue
                    n_trans += 1
                    c, hv, pure, fp = r
                    h2 = hist + (op,)
                    w = {"spec": spec.name, "args": spec.args(), "weighted": weighted}
                    if not pure:
                        ctx.add_violation(Violation(
                            "%s/hash-mutates-object/%s" % (spec.name, op[0]),
                            "hash_hypergraph changed the observable content after %r" % (list(h2),),
                            dict(w, kind="mutates", hist=[repr(o) for o in h2]), size=len(h2)))
                    if isinstance(hv, str) and hv.startswith("EXC:"):
                        ctx.add_violation(Violation(
                            "%s/hash-raises/%s" % (spec.name, op[0]),
                            "hash_hypergraph raised %s after %r" % (hv[4:], list(h2)),
                            dict(w, kind="raises", hist=[repr(o) for o in h2]), size=len(h2)))
                        continue
                    hs = table.setdefault(c, {})
                    if hv not in hs:
                        hs[hv] = (spec, weighted, h2)
                        if len(hs) > 1:
                            (s1, w1, ha), (s2, w2, hb) = list(hs.values())[:2]
                            la = ha[-1][0] if ha else "-"
                            lb = hb[-1][0] if hb else "-"
                            ctx.add_violation(Violation(
                                "%s/equal-content-different-hash/%s" % (spec.name, "+".join(sorted({la, lb}))),
                                "same observable content, different hashes:\n  A: %r\n  B: %r\n  content: %r" % (list(ha), list(hb), c),
                                dict(w, kind="equal-content", hist_a=[repr(o) for o in ha], hist_b=[repr(o) for o in hb]),
                                size=len(ha) + len(hb)))
                    cs = byhash.setdefault(hv, {})
                    if c not in cs:
                        cs[c] = (spec, weighted, h2)
                        if len(cs) > 1:
                            (ca, (s1, w1, ha)), (cb, (s2, w2, hb)) = list(cs.items())[:2]
                            comp = diff_component(ca, cb)
                            ctx.add_violation(Violation(
                                "%s/different-content-equal-hash/%s" % ("+".join(sorted({s1.name, s2.name})), comp),
                                "contents differ in %s but hash equal:\n  A (%s): %r\n  B (%s): %r" % (comp, s1.name, list(ha), s2.name, list(hb)),
                                {"kind": "collision", "a": {"spec": s1.name, "args": s1.args(), "weighted": w1, "hist": [repr(o) for o in ha]},
                                 "b": {"spec": s2.name, "args": s2.args(), "weighted": w2, "hist": [repr(o) for o in hb]}},
                                size=len(ha) + len(hb)))
                    fps = seen.get(c)
                    if fps is None:
                        seen[c] = {fp}
                        nxt.append(h2)
                    elif fp not in fps and len(fps) < reps:
                        fps.add(fp)
                        nxt.append(h2)
        frontier = nxt
        level += 1
    ctx.part(name, type=spec.name, weighted=weighted, ops=len(ops), contents=len(seen), transitions=n_trans,
             impl_executions=n_exec, levels=level, fixpoint=not frontier)
    return len(seen), n_trans, n_exec, (not frontier)


def profile_list(tier):
    P = []
    for mod in (c01, c02, c03, c04):
        for mode, prof, kw in mod.profiles("quick"):
            if mode != "closure":
                continue
            if tier == "quick" and prof.name in ("weights-on-unweighted",):
                continue
            P.append((mod.PROP + ":" + prof.name, prof))
            if prof.name == "metadata":
                P.append((mod.PROP + ":metadata-key-order", key_order_profile(prof)))
    return P


def key_order_profile(prof):
    """same content reached by setting two attributes in either order (and by removing and re-setting one): the metadata
    of a node, of a hyperedge and of the hypergraph are dictionaries, the order in which their keys were created is not content"""
    from ..explore import Profile

    n = next(o[1] for o in prof.ops if o[0] == "add_node")
    raw, x = next((o[1], o[2]) for o in prof.ops if o[0] == "add_edge")
    ops = [("add_node", n, None), ("add_edge", raw, x, None, None)]
    for k, v in (("k", 1), ("j", 2)):
        ops += [("set_attr_node", n, k, v), ("rm_attr_node", n, k), ("set_attr_edge", raw, x, k, v), ("rm_attr_edge", raw, x, k)]
    ops += [("set_attr_hg", "x", 1), ("set_attr_hg", "y", 2)]
    return Profile("metadata-key-order", prof.spec, False, ops)


FLOAT_OPS = {
    "Hypergraph": [("set_weight", (1, 2), None, 2.0), ("set_weight", (1, 2), None, 2)],
    "DirectedHypergraph": [("set_weight", ((1,), (2,)), None, 2.0), ("set_weight", ((1,), (2,)), None, 2)],
    "TemporalHypergraph": [("set_weight", (1, 2), 0, 2.0), ("set_weight", (1, 2), 0, 2)],
    "MultiplexHypergraph": [("set_weight", (1, 2), "a", 2.0), ("set_weight", (1, 2), "a", 2)],
}


def shared_dict_cases(ctx):
    """equal content, but in one of the two objects ONE dict object serves as the metadata of several nodes / hyperedges (what
    `metadata=[md] * n` or `set_node_metadata(v, h.get_node_metadata(u))` produce): object identity is not content"""
    import hypergraphx as hx
    from hypergraphx.readwrite.hashing import hash_hypergraph

    recs = {
        "Hypergraph": (hx.Hypergraph, [((1, 2),), ((1,),)]),
        "DirectedHypergraph": (hx.DirectedHypergraph, [(((1,), (2,)),), (((2,), (1,)),)]),
        "TemporalHypergraph": (hx.TemporalHypergraph, [((1, 2), 0), ((1,), 1)]),
        "MultiplexHypergraph": (hx.MultiplexHypergraph, [((1, 2), "a"), ((1,), "b")]),
    }
    n = 0
    for name, (cls, edges) in recs.items():
        for where in ("nodes", "edges", "node+edge", "all", "set-later"):
            def mk(shared):
                md = {"k": 1, "j": [1, 2]}
                get = (lambda: md) if shared else (lambda: {"k": 1, "j": [1, 2]})
                h = cls()
                h.add_node(1, metadata=get() if where in ("nodes", "node+edge", "all") else {"k": 1, "j": [1, 2]})
                h.add_node(2, metadata=get() if where in ("nodes", "all") else {"k": 1, "j": [1, 2]})
                h.add_edge(*edges[0], metadata=get() if where in ("edges", "node+edge", "all") else {"k": 1, "j": [1, 2]})
                h.add_edge(*edges[1], metadata=get() if where in ("edges", "all") else {"k": 1, "j": [1, 2]})
                if where == "set-later":
                    h.set_node_metadata(2, h.get_node_metadata(1)) if shared else h.set_node_metadata(2, {"k": 1, "j": [1, 2]})
                return h
            if where == "set-later" and not hasattr(cls, "set_node_metadata"):
                continue
            n += 1
            ha, hb = mk(True), mk(False)
            try:
                a, b = hash_hypergraph(ha), hash_hypergraph(hb)
            except Exception as e:
                ctx.add_violation(Violation("%s/hash-raises/shared-metadata-object" % name, "hash_hypergraph raised %s: %s" % (type(e).__name__, e),
                                            {"kind": "shared-dict", "type": name, "where": where}, size=4))
                continue
            if a != b:
                ctx.add_violation(Violation("%s/equal-content-different-hash/shared-metadata-object" % name,
                                            "one dict object used as the metadata of several items (%s) hashes differently from equal separate dicts" % where,
                                            {"kind": "shared-dict", "type": name, "where": where}, size=4))
    ctx.part("shared-metadata-objects", cases=n)
    return n


VALUE_MENU = [
    [1, 2, 3], [3, 1, 2], [2, 1, 3], [1, 2], [1, 2, 3, 3], ["b", "a"], ["a", "b"], [[1, 2], 3], [[2, 1], 3], [1, [2, 3]], [3, [1, 2]],
    {"a": [1, 2]}, {"a": [2, 1]}, {"a": 1, "b": 2}, {"a": 2, "b": 1}, [{"a": 1}, {"b": 2}], [{"b": 2}, {"a": 1}],
    "1", 1, ["1"], [1], "ab", "ba", [], {}, "",
]


def metadata_value_cases(ctx):
    """difference direction over a menu of structured metadata values: two hypergraphs that differ ONLY in one metadata value (of a
    node, of a hyperedge, or of the hypergraph) - every unordered pair of distinct menu values, e.g. the same items of a list in
    another order, another nesting, '1' against 1 - must hash differently; the same value built twice must hash equally"""
    import copy

    import hypergraphx as hx
    from hypergraphx.readwrite.hashing import hash_hypergraph

    recs = {
        "Hypergraph": (hx.Hypergraph, [((1, 2),), ((2, 3),)]),
        "DirectedHypergraph": (hx.DirectedHypergraph, [(((1,), (2,)),), (((2,), (3,)),)]),
        "TemporalHypergraph": (hx.TemporalHypergraph, [((1, 2), 0), ((2, 3), 1)]),
        "MultiplexHypergraph": (hx.MultiplexHypergraph, [((1, 2), "a"), ((2, 3), "b")]),
    }
    n = 0
    for name, (cls, edges) in recs.items():
        for where in ("node", "edge", "second-edge", "hypergraph"):
            def mk(v):
                v = copy.deepcopy(v)
                h = cls()
                for x in (1, 2, 3):
                    h.add_node(x, metadata={"route": v} if (where == "node" and x == 2) else {"route": 0})
                h.add_edge(*edges[0], metadata={"route": v} if where == "edge" else {"route": 0})
                h.add_edge(*edges[1], metadata={"route": v} if where == "second-edge" else {"route": 0})
                if where == "hypergraph":
                    h.set_attr_to_hypergraph_metadata("route", v)
                return h
            if where == "hypergraph" and not hasattr(cls, "set_attr_to_hypergraph_metadata"):
                continue
            hashes = []
            for v in VALUE_MENU:
                n += 1
                try:
                    a, b = hash_hypergraph(mk(v)), hash_hypergraph(mk(v))
                except Exception as e:
                    ctx.add_violation(Violation("%s/hash-raises/metadata-value" % name, "hash_hypergraph raised %s: %s for %s metadata value %r" % (type(e).__name__, e, where, v),
                                                {"kind": "metadata-value", "type": name, "where": where, "value": repr(v)}, size=4))
                    hashes.append(None)
                    continue
                if a != b:
                    ctx.add_violation(Violation("%s/equal-content-different-hash/metadata-value" % name, "%s metadata value %r built twice hashes differently" % (where, v),
                                                {"kind": "metadata-value", "type": name, "where": where, "value": repr(v)}, size=4))
                hashes.append(a)
            for i, j in itertools.combinations(range(len(VALUE_MENU)), 2):
                n += 1
                if hashes[i] is not None and hashes[i] == hashes[j]:
                    ctx.add_violation(Violation("%s/different-content-equal-hash/metadata-value" % name,
                                                "hypergraphs differing only in one %s metadata value (%r against %r) have the same hash" % (where, VALUE_MENU[i], VALUE_MENU[j]),
                                                {"kind": "metadata-value", "type": name, "where": where, "values": [repr(VALUE_MENU[i]), repr(VALUE_MENU[j])]}, size=4))
    ctx.part("metadata-value-menu", comparisons=n, values=len(VALUE_MENU))
    return n


def run(ctx):
    table, byhash = {}, {}
    tot_c = tot_t = tot_e = 0
    reps = 3 if ctx.tier == "quick" else 4
    for name, prof in profile_list(ctx.tier):
        ops = list(prof.ops)
        if prof.weighted:
            ops += FLOAT_OPS[prof.spec.name]  # numeric type of a weight is part of the content
        # closures with weights are bounded through the same cap as in C01-C04: drop ops that cannot stay below it
        depth = None
        if prof.enabled is not None:
            depth = 5 if ctx.tier == "quick" else 6  # no model here to enforce the cap: bound the depth instead
        c, t, e, fix = explore_hash(ctx, name, prof.spec, prof.weighted, ops, reps, depth, table, byhash)
        tot_c += c
        tot_t += t
        tot_e += e
    tot_e += shared_dict_cases(ctx)
    tot_e += metadata_value_cases(ctx)
    groups_multi = sum(1 for c, hs in table.items() if len(hs) == 1)
    ctx.require(len(table) > 500, "too few distinct contents reached (%d)" % len(table))
    ctx.require(tot_t > 20 * len(table) or ctx.violations, "too few histories per content")
    samples = []
    for i, (c, hs) in enumerate(table.items()):
        if i % max(1, len(table) // 6) == ctx.seed % 7:
            (s, w, h) = list(hs.values())[0]
            samples.append({"type": s.name, "history": [repr(o) for o in h], "hash": list(hs)[0][:16]})
    ctx.samples = samples[:8] or [{"contents": len(table)}]
    cov = {
        "states": len(table),
        "transitions": tot_t,
        "traces_validated_against_impl": tot_e,
        "evaluations": tot_e,
        "distinct_hashes": len(byhash),
        "exhaustive": True,
        "rule": "states = distinct publicly observable contents (type, weightedness, nodes+metadata, hyperedges+weights(with numeric type)+metadata, "
                "hypergraph metadata) over the C01-C04 closure alphabets; every transition into a content from up to `reps` representatives with "
                "different private tables records (content, hash); equality: one hash per content; difference: one content per hash across all four types",
    }
    return ctx.finish(cov, assumptions=[
        "content is what the public query API reports (hgxmc/specs.py content())",
        "weighted profiles are depth-bounded (weights grow without bound); unweighted profiles reach a fixpoint",
    ])


def replay(witness, key=None):
    import ast
    from hypergraphx.readwrite.hashing import hash_hypergraph

    def mk(d, hk="hist"):
        spec = make_spec(d["spec"], d["args"])
        h = build(spec, d["weighted"], tuple(ast.literal_eval(s) for s in d[hk]))
        return spec, h

    k = witness["kind"]
    if k == "shared-dict":
        class _Ctx:
            violations = []

            def add_violation(self, v):
                self.violations.append(v)

            def part(self, *a, **kw):
                pass

        c = _Ctx()
        shared_dict_cases(c)
        return any(v.witness.get("type") == witness["type"] and v.witness.get("where") == witness["where"] for v in c.violations)
    if k == "equal-content":
        s, a = mk(witness, "hist_a")
        _, b = mk(witness, "hist_b")
        bad = full_content(s, a) == full_content(s, b) and hash_hypergraph(a) != hash_hypergraph(b)
    elif k == "collision":
        sa, a = mk(witness["a"])
        sb, b = mk(witness["b"])
        bad = full_content(sa, a) != full_content(sb, b) and hash_hypergraph(a) == hash_hypergraph(b)
    elif k == "mutates":
        s, a = mk(witness)
        c1 = full_content(s, a)
        hash_hypergraph(a)
        bad = c1 != full_content(s, a)
    else:
        s, a = mk(witness)
        try:
            hash_hypergraph(a)
            bad = False
        except Exception:
            bad = True
    return bad
