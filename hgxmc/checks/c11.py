"""C11 - motif census equals exhaustive enumeration and is relabelling-invariant (E4, exhaustive)."""
import itertools

from .. import corpus as C
from ..core import Violation
from ..e4 import run_e4

LEVEL = "exploration"
PROP = "C11"


# ---- definitional oracle (undirected) -------------------------------------------------------------
def connected_cover(edges, nodes):
    nodes = list(nodes)
    if not edges:
        return False
    seen = {nodes[0]}
    changed = True
    while changed:
        changed = False
        for e in edges:
            if seen & set(e) and not set(e) <= seen:
                seen |= set(e)
                changed = True
    return seen == set(nodes)


_PERMS = {n: list(itertools.permutations(range(1, n + 1))) for n in (3, 4)}


def canon(pattern, n):
    """pattern: iterable of node tuples over labels 1..n -> lexicographically minimal relabelling"""
    best = None
    for p in _PERMS[n]:
        q = tuple(sorted(tuple(sorted(p[v - 1] for v in e)) for e in pattern))
        if best is None or q < best:
            best = q
    return best


def census(nodes, edges, n):
    E = {frozenset(e) for e in edges if 2 <= len(e) <= n}
    out = {}
    for S in itertools.combinations(sorted(nodes), n):
        ss = set(S)
        ind = [e for e in E if e <= ss]
        if not connected_cover(ind, S):
            continue
        idx = {v: i + 1 for i, v in enumerate(S)}
        c = canon([tuple(idx[v] for v in e) for e in ind], n)
        out[c] = out.get(c, 0) + 1
    return out


_NCLASSES = {}


def n_classes(n):
    if n not in _NCLASSES:
        base = list(range(1, n + 1))
        cands = [c for r in range(2, n + 1) for c in itertools.combinations(base, r)]
        seen = set()
        for r in range(1, len(cands) + 1):
            for es in itertools.combinations(cands, r):
                if connected_cover(es, base):
                    seen.add(canon(es, n))
        _NCLASSES[n] = seen
    return _NCLASSES[n]


def check_undirected(item, acc):
    from hypergraphx import Hypergraph
    from hypergraphx.motifs import compute_motifs

    order, nodes, edges, variant = item
    acc.evaluations += 1
    h = Hypergraph()
    for n in nodes:
        h.add_node(n)
    es = list(edges)
    if variant == "reversed":
        es = [tuple(reversed(e)) for e in reversed(es)]
    elif variant == "rotated":
        es = es[1:] + es[:1]
    for e in es:
        h.add_edge(e)
    w = {"kind": "undirected", "order": order, "nodes": list(nodes), "edges": [repr(e) for e in edges], "variant": variant}
    size = len(edges)
    try:
        obs = compute_motifs(h, order=order, runs_config_model=0)["observed"]
    except Exception as e:
        acc.violations.append(Violation("undirected/order%d/exception" % order, "compute_motifs raised %s: %s on %r" % (type(e).__name__, e, edges), w, size))
        return
    want = census(nodes, edges, order)
    classes = n_classes(order)
    got = {}
    dup = False
    for rep, cnt in obs:
        c = canon(rep, order)
        if c in got:
            dup = True
        got[c] = cnt
    if dup or set(got) != classes or len(obs) != len(classes):
        acc.violations.append(Violation("undirected/order%d/classes" % order, "reported %d patterns covering %d classes, expected each of %d classes once; edges %r" % (len(obs), len(got), len(classes), edges), w, size))
        return
    diff = {c: (got[c], want.get(c, 0)) for c in classes if got[c] != want.get(c, 0)}
    if diff:
        acc.violations.append(Violation("undirected/order%d/counts" % order, "edges %r (nodes %r, insertion %s): (reported, definition) per class %r" % (edges, nodes, variant, diff), w, size))
    else:
        acc.outcomes.add(hash(tuple(sorted(want.items()))))
        if sum(want.values()) >= 2:
            acc.nontrivial.add(hash((order, tuple(sorted(map(tuple, edges))))))
    # the same object after an in-place change (the census has been computed on it once): a pair that is not yet a hyperedge is
    # added, the census recomputed, the pair removed, the census recomputed
    if variant != "sorted" or (order == 4 and len(edges) > 2) or (order == 3 and len(edges) > 4):
        return
    have = {tuple(sorted(e)) for e in edges}
    pair = next((p for p in itertools.combinations(sorted(nodes), 2) if p not in have), None)
    if pair is None:
        return
    for stage, act, es2 in (("add_edge", lambda: h.add_edge(pair), tuple(edges) + (pair,)), ("remove_edge", lambda: h.remove_edge(pair), tuple(edges))):
        acc.evaluations += 1
        try:
            act()
            obs2 = compute_motifs(h, order=order, runs_config_model=0)["observed"]
        except Exception as e:
            acc.violations.append(Violation("undirected/order%d/second-call/exception" % order, "%s then compute_motifs raised %s: %s on %r" % (stage, type(e).__name__, e, edges), w, size))
            return
        want2 = census(nodes, es2, order)
        got2 = {}
        for rep, cnt in obs2:
            got2[canon(rep, order)] = cnt
        diff = {c: (got2.get(c), want2.get(c, 0)) for c in classes if got2.get(c) != want2.get(c, 0)}
        if diff or len(obs2) != len(classes):
            acc.violations.append(Violation("undirected/order%d/second-call/counts" % order, "after %s %r on the same object, edges %r: (reported, definition) per class %r" % (stage, pair, edges, diff), w, size))
            return


# ---- directed ------------------------------------------------------------------------------------------
def dcanon(pattern, n):
    best = None
    for p in _PERMS[n]:
        q = tuple(sorted((tuple(sorted(p[v - 1] for v in s)), tuple(sorted(p[v - 1] for v in t))) for s, t in pattern))
        if best is None or q < best:
            best = q
    return best


def check_directed(item, acc):
    """item = (order, n_nodes, iso-class members [edge lists], extra big hyperedge)"""
    from hypergraphx import DirectedHypergraph
    from hypergraphx.motifs.directed_motifs import compute_directed_motifs

    order, members = item
    first = None
    for edges, extra in members:
        acc.evaluations += 1
        h = DirectedHypergraph()
        for e in edges:
            h.add_edge(e)
        for e in extra:
            h.add_edge(e)
        w = {"kind": "directed", "order": order, "edges": [repr(e) for e in edges], "extra": [repr(e) for e in extra]}
        try:
            obs = compute_directed_motifs(h, order=order, runs_config_model=0)["observed"]
        except Exception as e:
            acc.violations.append(Violation("directed/order%d/exception" % order, "compute_directed_motifs raised %s: %s on %r" % (type(e).__name__, e, edges), w, len(edges)))
            continue
        cen = {}
        for rep, cnt in obs:
            if dcanon(rep, order) != tuple(rep):
                acc.violations.append(Violation("directed/order%d/not-canonical" % order, "reported pattern %r is not its class's canonical representative %r; edges %r" % (rep, dcanon(rep, order), edges), w, len(edges)))
            if rep in cen:
                acc.violations.append(Violation("directed/order%d/duplicate-pattern" % order, "pattern %r reported twice; edges %r" % (rep, edges), w, len(edges)))
            cen[tuple(rep)] = cnt
        key = tuple(sorted(cen.items()))
        if first is None:
            first = (key, edges, extra)
        elif key != first[0]:
            what = "larger-hyperedge-not-ignored" if (extra or first[2]) and sorted(edges) == sorted(first[1]) else "relabelling"
            acc.violations.append(Violation("directed/order%d/%s" % (order, what), "census differs between %r(+%r) and %r(+%r): %r vs %r" % (first[1], first[2], edges, extra, first[0], key),
                                            dict(w, other=[repr(e) for e in first[1]], other_extra=[repr(e) for e in first[2]]), len(edges)))
        acc.outcomes.add(hash(key))
        if cen:
            acc.nontrivial.add(hash((order, tuple(sorted(edges)))))


def directed_items(order, n, max_edges, with_extra):
    """iso classes of directed hypergraphs on n nodes (sizes <= order) with all their members"""
    nodes = tuple(range(1, n + 1))
    cands = [e for e in C.directed_pairs(nodes) if len(e[0]) + len(e[1]) <= order]
    perms = list(itertools.permutations(nodes))
    classes = {}
    for r in range(1, max_edges + 1):
        for es in itertools.combinations(cands, r):
            best = None
            for p in perms:
                m = dict(zip(nodes, p))
                q = tuple(sorted((tuple(sorted(m[v] for v in s)), tuple(sorted(m[v] for v in t))) for s, t in es))
                if best is None or q < best:
                    best = q
            classes.setdefault(best, []).append(es)
    big_nodes = tuple(range(1, order + 2))
    extra = (((big_nodes[:2]), (big_nodes[2:])),) if with_extra else ()
    for k, members in sorted(classes.items()):
        ms = [(es, ()) for es in members]
        if extra:
            ms.append((members[0], extra))  # a hyperedge larger than the order must be ignored
        yield ("D", (order, ms))


def undirected_items(tier):
    # order 3: every hypergraph on 4 nodes with hyperedges of size 2-3 (2^10), plus variants with sizes 1,4,5,6 that must be ignored
    U4 = (1, 2, 3, 4)
    c3 = [c for r in (2, 3) for c in itertools.combinations(U4, r)]
    for r in range(1, len(c3) + 1):
        for es in itertools.combinations(c3, r):
            yield ("U", (3, U4, es, "sorted"))
    extras = [(1,), (1, 2, 3, 4), (1, 2, 3, 4, 5), (1, 2, 3, 4, 5, 6)]
    U6 = (1, 2, 3, 4, 5, 6)
    for r in (1, 2, 3):
        for es in itertools.combinations(c3, r):
            yield ("U", (3, U6, es + tuple(extras), "reversed"))
    # non-contiguous labels
    m = {1: 2, 2: 5, 3: 7, 4: 11}
    for r in (2, 3):
        for es in itertools.combinations(c3, r):
            yield ("U", (3, (2, 5, 7, 11), tuple(tuple(m[v] for v in e) for e in es), "rotated"))
    # order 4
    c4 = [c for r in (2, 3, 4) for c in itertools.combinations(U4, r)]
    me = len(c4)  # all 2^11 hypergraphs on four nodes with sizes 2-4 (both tiers)
    for r in range(1, me + 1):
        for es in itertools.combinations(c4, r):
            yield ("U", (4, U4, es, "sorted"))
    # labels that are not 0..N-1 / whose hash order differs from their numeric order (negative, 8, 16)
    for lab in ({1: 1, 2: 2, 3: 3, 4: 8}, {1: -3, 2: 0, 3: 5, 4: 16}, {1: 16, 2: 8, 3: 3, 4: -1}):
        for r in (2, 3):
            for es in itertools.combinations(c4, r):
                if tier == "quick" and not any(len(e) == 3 for e in es):
                    continue
                yield ("U", (4, tuple(sorted(lab.values())), tuple(tuple(lab[v] for v in e) for e in es), "rotated"))
    # size-1 hyperedges (and larger ones) next to the pattern must be ignored, also for order 4
    for r in (1, 2):
        for es in itertools.combinations(c4, r):
            if any(len(e) == 3 for e in es):
                for single in ((1,), (4,)):
                    yield ("U", (4, U4, es + (single,), "sorted"))
                yield ("U", (4, (1, 2, 3, 4, 5, 6), es + ((2,), (1, 2, 3, 4, 5), (3, 4, 5, 6, 1, 2)), "reversed"))
    U5 = (1, 2, 3, 4, 5)
    c5 = [c for r in (2, 3, 4) for c in itertools.combinations(U5, r)]
    if tier == "quick":
        for es in itertools.combinations(c5, 3):
            # fixed sub-family: triples that start with the pair (1,2) and one of five second hyperedges
            if es[0] == (1, 2) and es[1] in ((1, 3), (2, 3), (3, 4), (1, 2, 3), (3, 4, 5)):
                yield ("U", (4, U5, es, "sorted"))
    else:
        for r in (1, 2, 3):
            for es in itertools.combinations(c5, r):
                yield ("U", (4, U5, es, "sorted"))
        for es in itertools.combinations(c4, 3):
            yield ("U", (4, U6, es + ((1, 2, 3, 4, 5), (2, 3, 4, 5, 6), (6,)), "reversed"))


def worker(part, acc):
    for kind, item in part:
        if kind == "U":
            check_undirected(item, acc)
        else:
            check_directed(item, acc)


def run(ctx):
    assert len(n_classes(3)) == 6
    items = list(undirected_items(ctx.tier))
    items += list(directed_items(3, 3, 3 if ctx.tier == "quick" else 12, True))
    items += list(directed_items(4, 4, 2 if ctx.tier == "quick" else 3, True))
    # order-4 undirected calls are ~1.5 s each: put them first so that shards balance
    items.sort(key=lambda it: 0 if (it[0] == "U" and it[1][0] == 4) else 1)
    n4 = sum(1 for it in items if it[0] == "U" and it[1][0] == 4)
    # interleave heavy items across shards
    heavy, light = items[:n4], items[n4:]
    shards = [[] for _ in range(ctx.jobs * 4)]
    for i, it in enumerate(heavy):
        shards[i % len(shards)].append(it)
    for i, it in enumerate(light):
        shards[i % len(shards)].append(it)
    flat = [it for s in shards for it in s]
    ev, nt, oc = run_e4(ctx, flat, worker, nchunks=len(shards))
    ctx.part("inputs", undirected_order3=sum(1 for it in items if it[0] == "U" and it[1][0] == 3), undirected_order4=n4,
             directed_iso_classes=sum(1 for it in items if it[0] == "D"), classes_order3=6, classes_order4=len(n_classes(4)))
    ctx.require(len(n_classes(4)) == 171, "oracle finds %d classes of order 4, expected 171" % len(n_classes(4)))
    us = [it for it in items if it[0] == "U"]
    for i in range(4):
        o, nodes, es, var = us[(ctx.seed + i * (len(us) // 4)) % len(us)][1]
        ctx.sample({"order": o, "nodes": list(nodes), "edges": [list(e) for e in es], "insertion": var})
    cov = {
        "evaluations": ev, "distinct_nontrivial": len(nt), "exhaustive": True, "inputs": len(items), "distinct_outcomes": len(oc),
        "rule": "order 3: hypergraphs over {1,2,3,4} with hyperedges of size 2-3 (all 2^10), variants with hyperedges of size "
                "1,4,5,6 that must be ignored, non-contiguous labels, reversed/rotated insertion; order 4: hypergraphs over 4 nodes with sizes 2-4 (all 2^11 in "
                "both tiers) and over 5 nodes (quick: a fixed family of triples, thorough: all with <=3 hyperedges); the census is compared "
                "class by class with brute force over all node subsets. Directed: all isomorphism classes of directed hypergraphs on 3 nodes (order 3) and "
                "4 nodes (order 4) within the edge bound, every member of each class must give the same census, every reported pattern must be canonical, a "
                "larger hyperedge must change nothing. Non-trivial = census with >= 2 motif occurrences (undirected) / non-empty census (directed).",
    }
    return ctx.finish(cov, assumptions=["brute-force oracle in hgxmc/checks/c11.py (all node subsets, all relabellings)"])


def replay(witness, key=None):
    import ast
    from ..e4 import Acc

    acc = Acc()
    if witness["kind"] == "undirected":
        check_undirected((witness["order"], tuple(witness["nodes"]), tuple(ast.literal_eval(e) for e in witness["edges"]), witness["variant"]), acc)
    else:
        es = tuple(ast.literal_eval(e) for e in witness["edges"])
        ex = tuple(ast.literal_eval(e) for e in witness["extra"])
        ms = [(es, ex)]
        if "other" in witness:
            ms.insert(0, (tuple(ast.literal_eval(e) for e in witness["other"]), tuple(ast.literal_eval(e) for e in witness["other_extra"])))
        check_directed((witness["order"], ms), acc)
    for v in acc.violations[:3]:
        print("   " + v.msg[:600])
    return bool(acc.violations)
