"""C03 - TemporalHypergraph keeps (time, hyperedge) records; windows / snapshots / aggregation agree (E2 + E1)."""
from .. import alphabets as A
from ..explore import Profile
from ..specs import TemporalSpec
from . import _containers as CC

LEVEL = "model_checking"
PROP = "C03"
KN = "TemporalHypergraph"


def profiles(tier):
    P = []
    U2 = (1, 2)
    c2 = [(1,), (1, 2), (2,)]
    spec2 = TemporalSpec(U2, 99, c2, times=(0, 1, 2))
    bad_times = (-1, 1.5, "1")
    recs2 = [((1, 2), 0), ((1, 2), 2), ((1,), 0), ((2,), 1), ((1,), 2)]
    st = A.record_structure(KN, U2, recs2, absent_record=((1, 99), 0), invalid_extras=bad_times)
    st += [("remove_nodes", (1, 2), False), ("remove_nodes", (2, 99), True), ("remove_nodes", (2, 1), True),
           ("add_edge", (1, 2), 1, None, None), ("remove_edge", (1, 2), 1)]
    P.append(("closure", Profile("structure", spec2, False, st), {}))
    wrecs = [((1, 2), 0), ((1,), 0), ((1, 2), 1)]
    wops = A.record_weights(KN, U2, wrecs, absent_record=((1, 99), 0), batch_pairs=[(wrecs[0], wrecs[1]), (wrecs[0], wrecs[2])])
    P.append(("closure", Profile("weights", spec2, True, wops, enabled=A.weight_cap(2 if tier == "quick" else 3)), {}))
    mrecs = [((1, 2), 0), ((1,), 0)] if tier == "quick" else [((1, 2), 0), ((1,), 0), ((1, 2), 1)]
    mops = A.record_metadata(KN, U2, mrecs)
    P.append(("closure", Profile("metadata", spec2, False, mops), {}))
    flip = A.record_weights(KN, U2, [((1, 2), 0), ((1,), 0)], batch_pairs=[(wrecs[0], wrecs[1])])
    P.append(("closure", Profile("weights-on-unweighted", spec2, False, flip, enabled=A.weight_cap(3)), {}))
    d = 3 if tier == "quick" else 5
    U3 = (1, 2, 3)
    c3 = [(1, 2), (2, 3), (1, 2, 3), (1,)]
    spec3 = TemporalSpec(U3, 99, c3, times=(0, 1, 2))
    hrecs = [((1, 2), 0), ((1, 2, 3), 0), ((1, 2, 3), 2), ((2, 3), 1)]
    hs = A.record_structure(KN, U3, hrecs, absent_record=((1, 99), 0), batches=False, invalid_extras=(-1,))
    P.append(("histories", Profile("hist-structure", spec3, False, hs), {"depth": d}))
    hw = A.record_weights(KN, U3, hrecs[:3], batch_pairs=[(hrecs[0], hrecs[1])])
    P.append(("histories", Profile("hist-weights", spec3, True, hw), {"depth": d}))
    # deep churn histories over a tiny alphabet (insert / remove of four records): id reuse and stale tables need 5+ steps
    P.append(("histories", Profile("hist-churn", spec3, False, A.churn([((1, 2), 0), ((1, 2, 3), 0), ((2, 3), 1), ((1, 2), 2)])), {"depth": 8 if tier == "quick" else 10}))
    P.append(("histories", Profile("hist-churn-weighted", spec3, True, A.churn([((1, 2), 0), ((1, 2, 3), 0), ((2, 3), 1), ((1, 2), 2)])), {"depth": 6 if tier == "quick" else 8}))
    if tier == "thorough":
        recs3 = [((1, 2), 0), ((1, 2, 3), 0), ((1, 2, 3), 2), ((2, 3), 1), ((3,), 2), ((1, 2), 2)]
        st3 = A.record_structure(KN, U3, recs3, absent_record=((1, 99), 0), invalid_extras=bad_times, batches=False)
        P.append(("closure", Profile("structure-3", spec3, False, st3), {"reps": 2}))
        Us = ("a", "b")
        specs = TemporalSpec(Us, "zz", [("a",), ("a", "b"), ("b",)], times=(0, 1, 2))
        recss = [(tuple(Us[i - 1] for i in r), t) for r, t in recs2]
        sts = A.record_structure(KN, Us, recss, absent="zz", absent_record=(("a", "zz"), 0), invalid_extras=bad_times)
        P.append(("closure", Profile("structure-str", specs, False, sts), {}))
    return P


def run(ctx):
    return CC.run_container_check(ctx, profiles(ctx.tier))


def replay(witness, key=None):
    return CC.replay(witness, key)
