"""C19 - metadata filters keep exactly what the criteria say; SVH p-values follow the definition (E4, exhaustive)."""
import itertools
from fractions import Fraction
from math import comb

from .. import corpus as C
from ..core import Violation
from ..e4 import run_e4
from ..models.mapmodel import KINDS, MapModel
from .c06 import kview

LEVEL = "exploration"
PROP = "C19"

MDS = [{}, {"t": "x"}, {"t": "y"}, {"t": "x", "g": 1}]
LISTS = [["x"], ["x", "y"], [1], [None]]
KIND_NAME = {"H": "Hypergraph", "D": "DirectedHypergraph", "T": "TemporalHypergraph", "M": "MultiplexHypergraph"}


def criteria_menu():
    single = [{a: l} for a in ("t", "g") for l in LISTS]
    double = [{"t": l1, "g": l2} for l1 in LISTS for l2 in LISTS]
    return single + double


def matches(md, crit):
    return all(md.get(a) in vals for a, vals in crit.items())


def model_of(desc):
    K = KINDS[KIND_NAME[desc["kind"]]]
    m = MapModel(K, desc["weighted"])
    for n in desc["nodes"]:
        m.nodes[n] = dict(desc["nmd"].get(n, {}))
    for i, e in enumerate(desc["edges"]):
        k = desc["kind"]
        key = K.key(e) if k in ("H", "D") else (K.key(e[1], e[0]) if k == "T" else K.key(e[0], e[1]))
        m.edges[key] = [desc["weights"][i] if desc["weighted"] else 1, dict(desc["emd"].get(e, {}))]
    return m


def model_view(m):
    from ..specs import cmd

    K = m.kind
    return (
        tuple(sorted(((n, cmd(md)) for n, md in m.nodes.items()), key=repr)),
        tuple(sorted(((K.show(k), w, cmd(md)) for k, (w, md) in m.edges.items()), key=repr)),
    )


def impl_view(h, kind):
    v = kview(h, kind, False)
    if v and v[0] == "ERR":
        return v
    return (v[2], tuple((e, (w[0] if isinstance(w, tuple) else w), md) for e, w, md in v[3]))


def ref_filter(desc, order, node_crit, edge_crit, mode, keep_edges):
    """set of acceptable final (nodes, edges) views"""
    alts = [model_of(desc)]
    if node_crit is not None:
        todo = [n for n in order if (mode == "keep") != matches(desc["nmd"].get(n, {}), node_crit)]
        for n in todo:
            nxt = []
            for a in alts:
                nxt.extend(x for x in a.apply(("remove_node", n, keep_edges)) if x is not None)
            alts = nxt
    out = set()
    for a in alts:
        if edge_crit is not None:
            b = a.clone()
            for k in list(b.edges):
                if (mode == "keep") != matches(b.edges[k][1], edge_crit):
                    del b.edges[k]
            a = b
        out.add(model_view(a))
    return out


def check_filter(desc, acc):
    from hypergraphx.filters import filter_hypergraph

    kind = desc["kind"]
    base = dict(desc=C.show(desc))
    size = len(desc["edges"]) + len(desc["nodes"])
    menu = criteria_menu()
    combos = [(c, None) for c in menu] + [(None, c) for c in menu] + [(a, b) for a in menu[:8] for b in menu[:8]]
    for ncrit, ecrit in combos:
        for mode in ("keep", "remove"):
            for keep_edges in (False, True):
                acc.evaluations += 1
                h = C.build(desc)
                order = list(h.get_nodes())
                w = dict(base, ncrit=ncrit, ecrit=ecrit, mode=mode, keep_edges=keep_edges)
                phase = "node" if ecrit is None else ("edge" if ncrit is None else "both")
                try:
                    filter_hypergraph(h, node_criteria=ncrit, edge_criteria=ecrit, mode=mode, keep_edges=keep_edges)
                except Exception as e:
                    acc.violations.append(Violation("filter/%s/%s-criteria/exception" % (kind, phase), "filter_hypergraph(node=%r, edge=%r, mode=%s, keep_edges=%s) raised %s: %s on %s"
                                                    % (ncrit, ecrit, mode, keep_edges, type(e).__name__, e, C.show(desc)), w, size))
                    continue
                got = impl_view(h, kind)
                want = ref_filter(desc, order, ncrit, ecrit, mode, keep_edges)
                if got not in want:
                    first = sorted(want)[0]
                    part = "nodes" if got[0] != first[0] else "hyperedges"
                    acc.violations.append(Violation("filter/%s/%s-criteria/%s" % (kind, phase, part), "filter_hypergraph(node=%r, edge=%r, mode=%s, keep_edges=%s) on %s: got %r, reference %r"
                                                    % (ncrit, ecrit, mode, keep_edges, C.show(desc), got, first), w, size))
                else:
                    acc.outcomes.add(hash(got))
                    if len(got[0]) not in (0, len(desc["nodes"])) or len(got[1]) not in (0, len(desc["edges"])):
                        acc.nontrivial.add(hash((repr(C.show(desc)), repr(ncrit), repr(ecrit), mode, keep_edges)))


def filter_corpus(tier):
    U = (2, 5, 7)
    node_assign = [(0, 1, 2), (1, 1, 3), (3, 2, 0), (2, 0, 1)] if tier == "quick" else list(itertools.product(range(4), repeat=3))[::7]

    def with_md(gen, edge_md_all):
        for d in gen:
            for na in node_assign:
                em_opts = list(itertools.product(range(4), repeat=len(d["edges"]))) if edge_md_all else [tuple((i + 1) % 4 for i in range(len(d["edges"])))]
                for ea in em_opts:
                    dd = dict(d)
                    dd["nmd"] = {n: dict(MDS[na[i % 3]]) for i, n in enumerate(d["nodes"])}
                    dd["emd"] = {e: dict(MDS[ea[i]]) for i, e in enumerate(d["edges"])}
                    yield dd

    me = 2
    yield from with_md(C.hypergraph_contents(U, isolated=(), lo=1, hi=3, max_edges=me, min_edges=1, weighted=(False, True), md_styles=(0,)), tier != "quick")
    yield from with_md(C.directed_contents(U, max_edges=me, min_edges=1, weighted=(False,), md_styles=(0,)), False)
    yield from with_md(C.temporal_contents(U[:2] + (7,), times=(0, 1), lo=1, hi=2, max_edges=me, min_edges=1, weighted=(False,), md_styles=(0,)), False)
    yield from with_md(C.multiplex_contents(U, layers=("a", "b"), lo=1, hi=2, max_edges=me, min_edges=1, weighted=(True,), md_styles=(0,)), False)


# ---- statistically validated hypergraph -------------------------------------------------------------------
def binom_sf_exact(k, n, p):
    """P(X >= k), X ~ Bin(n, p), exact rational"""
    return sum(Fraction(comb(n, i)) * p ** i * (1 - p) ** (n - i) for i in range(max(k, 0), n + 1))


def check_svh(item, acc):
    from hypergraphx import Hypergraph
    from hypergraphx.filters import get_svh

    nodes, edges, weights, max_order, mp = item[:5]
    second_call = len(item) > 5 and item[5]
    h = Hypergraph(weighted=True)
    for e, wt in zip(edges, weights):
        h.add_edge(e, weight=wt)
    w = {"kind": "svh", "edges": [list(e) for e in edges], "weights": list(weights), "max_order": max_order, "mp": mp, "second_call": second_call}
    size = len(edges)
    acc.evaluations += 1

    def bad(what, msg):
        acc.violations.append(Violation("svh/%s" % what, "%s; edges %r weights %r max_order=%d mp=%s" % (msg, edges, weights, max_order, mp), w, size))

    try:
        if second_call:
            # a first call on the same object with other weights: nothing of it may survive into the second call
            get_svh(h, max_order=max_order, mp=False)
            weights = tuple(w0 + 2 for w0 in weights[:1]) + tuple(weights[1:])
            h.set_weight(edges[0], weights[0])
        res = get_svh(h, max_order=max_order, mp=mp)
    except Exception as e:
        return bad("exception", "get_svh raised %s: %s" % (type(e).__name__, e))
    wmap = {tuple(sorted(e)): wt for e, wt in zip(edges, weights)}
    sizes = sorted({len(e) for e in wmap if 2 <= len(e) <= max_order})
    if sorted(res.keys()) != sizes:
        return bad("sizes", "tables for sizes %r, expected %r" % (sorted(res.keys()), sizes))
    for n in sizes:
        es = [e for e in wmap if len(e) == n]
        df = res[n]
        got_edges = [tuple(x) for x in df["edge"].tolist()]
        if sorted(got_edges) != sorted(es):
            return bad("edges-listed", "size %d: listed %r, expected each of %r once" % (n, got_edges, es))
        N = sum(wmap[e] for e in es)
        Kn = {}
        for e in es:
            for v in e:
                Kn[v] = Kn.get(v, 0) + wmap[e]
        pex = {}
        for e in es:
            p0 = Fraction(1)
            for v in e:
                p0 *= Fraction(Kn[v], N)
            pex[e] = binom_sf_exact(wmap[e], N, p0)
        gotp = dict(zip(got_edges, df["pvalue"].tolist()))
        for e in es:
            if abs(float(gotp[e]) - float(pex[e])) > 1e-12 + 1e-9 * float(pex[e]):
                return bad("pvalue", "size %d edge %r: p=%r, definition %r (N=%d, K=%r, w=%d)" % (n, e, gotp[e], float(pex[e]), N, [Kn[v] for v in e], wmap[e]))
        n_a = len(Kn)
        bonf = Fraction(1, 100) / comb(n_a, n)
        ps = sorted(pex.values())
        thr = Fraction(0)
        amb = False
        for i, p in enumerate(ps):
            k = (i + 1) * bonf
            if abs(float(p) - float(k)) < 1e-13:
                amb = True
            if p < k:
                thr = k
        if amb:
            acc.count("svh-threshold-ambiguous")
            continue
        wantv = {e: pex[e] < thr for e in es}
        gotv = dict(zip(got_edges, [bool(x) for x in df["fdr"].tolist()]))
        if gotv != wantv:
            return bad("validated-set", "size %d: validated %r, definition %r (threshold %r)" % (n, gotv, wantv, float(thr)))
        if any(gotv[a] and not gotv[b] and gotp[b] < gotp[a] for a in es for b in es):
            return bad("validated-order", "size %d: a hyperedge is validated while one with a smaller p-value is not" % n)
        if any(wantv.values()) and not all(wantv.values()):
            acc.nontrivial.add(hash((tuple(edges), tuple(weights), n)))
        elif len(es) >= 2:
            acc.nontrivial.add(hash((tuple(edges), tuple(weights), n, "p")))
    acc.outcomes.add(hash(repr(sorted(wmap.items()))))


def svh_corpus(tier):
    U = (2, 5, 7, 11) if tier == "quick" else (2, 5, 7, 11, 13)
    hi = 3 if tier == "quick" else 4
    cands = [c for r in range(2, hi + 1) for c in itertools.combinations(U, r)]
    i = 0
    for r in (2, 3) if tier == "quick" else (2, 3, 4):
        for es in itertools.combinations(cands, r):
            for ws in itertools.product((1, 2, 3), repeat=r):
                for mo in (2, 3, 4):
                    i += 1
                    mp = (i % (400 if tier == "quick" else 20000) == 0)  # process pools are slow (run one by one in the parent): a deterministic subset
                    if tier == "thorough" and r == 4 and (i % 9):
                        continue
                    yield ("svh", (U, es, ws, mo, mp))
    # two (three) disjoint hyperedges with equal heavy weights: equal p-values between bonf and 2*bonf (3*bonf), where a
    # step-up threshold validates all of them and a step-down one validates none
    for w0 in range(4, 26):
        yield ("svh", ((2, 5, 7, 11), ((2, 5), (7, 11)), (w0, w0), 3, False))
        yield ("svh", ((2, 5, 7, 11, 13, 17), ((2, 5), (7, 11), (13, 17)), (w0, w0, w0), 3, False))
        yield ("svh", ((2, 5, 7, 11, 13, 17), ((2, 5, 7), (11, 13, 17)), (w0, w0), 3, False))
    # two sizes at once: k disjoint heavy pairs (validated) next to m disjoint triples of moderate weight (p-values between the
    # triples' own levels and the pairs' threshold): each size has to be judged by the threshold computed from ITS p-values
    P = (2, 3, 5, 7, 11, 13, 17, 19, 23, 29, 31, 37, 41, 43, 47, 53, 59)
    for k in (2, 3, 4):
        for m in (2, 3):
            pairs = tuple((P[2 * i], P[2 * i + 1]) for i in range(k))
            triples = tuple((P[2 * k + 3 * j], P[2 * k + 3 * j + 1], P[2 * k + 3 * j + 2]) for j in range(m))
            for w2 in (6, 8, 10, 12):
                for w3 in (2, 3, 4, 5, 6):
                    yield ("svh", (P, pairs + triples, (w2,) * k + (w3,) * m, 3, False))
                    yield ("svh", (P, triples + pairs, (w3,) * m + (w2,) * k, 4, False))
    # second call on the same object after a weight change
    for es in itertools.combinations(cands[:6], 2):
        for ws in ((1, 1), (2, 3), (3, 1)):
            yield ("svh", (U, es, ws, 3, False, True))
    # heavier weights: validated sets become non-trivial
    for es in itertools.combinations(cands[:6], 3):
        for ws in ((9, 1, 1), (1, 12, 1), (6, 6, 1), (20, 1, 2)):
            yield ("svh", (U, es, ws, 4, False))


def worker(part, acc):
    for kind, item in part:
        if kind == "svh":
            check_svh(item, acc)
        else:
            check_filter(item, acc)


def run(ctx):
    fl = [("filter", d) for d in filter_corpus(ctx.tier)]
    sv = list(svh_corpus(ctx.tier))
    mp_items = [it for it in sv if it[1][4]]
    items = fl + [it for it in sv if not it[1][4]]
    k = ctx.jobs * 6
    shards = [items[i::k] for i in range(k)]
    ev, nt, oc = run_e4(ctx, [it for s in shards for it in s], worker, nchunks=k)
    # mp=True spawns a process pool: these run in the parent, one after the other
    from ..e4 import Acc
    import contextlib, io
    acc = Acc()
    with contextlib.redirect_stdout(io.StringIO()):
        worker(mp_items, acc)
    ctx.add_violations(acc.violations)
    ev += acc.evaluations
    nt |= acc.nontrivial
    ctx.count("svh-mp-true-runs", len(mp_items))
    ctx.part("inputs", filter_contents=len(fl), criteria_combinations=len(criteria_menu()) * 2 + 64, svh_inputs=len(sv))
    ctx.require(len(fl) > 300 and len(sv) > 3000, "corpus too small")
    ctx.sample(C.show(fl[(ctx.seed * 17 + 3) % len(fl)][1]))
    s = sv[(ctx.seed * 31 + 11) % len(sv)][1]
    ctx.sample({"svh": {"edges": [list(e) for e in s[1]], "weights": list(s[2]), "max_order": s[3], "mp": s[4]}})
    cov = {
        "evaluations": ev, "distinct_nontrivial": len(nt), "exhaustive": True, "distinct_outcomes": len(oc),
        "svh_threshold_ambiguous_skipped": ctx.counts.get("svh-threshold-ambiguous", 0),
        "rule": "filters: contents of the four container types with 1-2 records over 3 nodes, node/hyperedge metadata from {{}, {t:x}, {t:y}, {t:x,g:1}}, x every "
                "criteria dictionary over attributes t,g with allowed lists from {[x],[x,y],[1],[None]} (node only, hyperedge only, 64 joint combinations) x mode "
                "keep/remove x keep_edges F/T; result compared with the reference model filtered by definition. SVH: every hypergraph with 2-3 (thorough 2-4) "
                "hyperedges of size 2-3 (2-4) over 4 (5) nodes x weights in {1,2,3}^m x max_order 2,3,4 (+ heavy-weight family); p-values and validated sets "
                "recomputed in exact rational arithmetic. Non-trivial = a filter that removes some but not all items / an SVH table with >= 2 hyperedges.",
    }
    return ctx.finish(cov, assumptions=["scipy.stats.binom.sf agrees with the exact tail to 1e-9 relative", "mp=True only on a deterministic 1/400 subset"])


def replay(witness, key=None):
    from ..e4 import Acc

    acc = Acc()
    if witness.get("kind") == "svh":
        wts = list(witness["weights"])
        if witness.get("second_call"):
            wts[0] -= 2
        check_svh((None, tuple(tuple(e) for e in witness["edges"]), tuple(wts), witness["max_order"], witness["mp"], witness.get("second_call", False)), acc)
    else:
        check_filter(C.from_show(witness["desc"]), acc)
    hit = [v for v in acc.violations if key is None or v.key == key or PROP + "/" + v.key == key]
    for v in hit[:3]:
        print("   " + v.msg[:600])
    return bool(hit)
