"""C20 - centralities are the advertised functionals of the hypergraph's projections.

s-/node/sub-hypergraph centralities: E4 with networkx / scipy on independently built graphs.
CEC / HEC: E4 over all connected uniform hypergraphs x E3 menu of start vectors; eigen-equations
checked with tolerances derived from the iterations' own stopping rules (DESIGN 3.C20).
"""
import itertools

import networkx as nx
import numpy as np

from .. import choice as CH
from .. import corpus as C
from ..core import Violation
from ..e4 import run_e4
from .c05 import components

LEVEL = "exploration"
PROP = "C20"


def line_graph_def(edges, s):
    g = nx.Graph()
    g.add_nodes_from(range(len(edges)))
    for i, j in itertools.combinations(range(len(edges)), 2):
        if len(set(edges[i]) & set(edges[j])) >= s:
            g.add_edge(i, j)
    return g


def bip_def(nodes, edges):
    g = nx.Graph()
    for n in nodes:
        g.add_node(("n", n))
    for i, e in enumerate(edges):
        g.add_node(("e", i))
        for n in e:
            g.add_edge(("e", i), ("n", n))
    return g


def close(a, b, tol=1e-10):
    return set(a) == set(b) and all(abs(a[k] - b[k]) <= tol * (1 + abs(b[k])) for k in b)


def check_s(desc, acc):
    import hypergraphx.measures.s_centralities as S
    from hypergraphx.measures.sub_hypergraph_centrality import subhypergraph_centrality
    from scipy.linalg import expm

    base = dict(desc=C.show(desc))
    size = len(desc["edges"]) + len(desc["nodes"])

    def bad(what, msg):
        acc.violations.append(Violation(what, "%s on %s" % (msg, C.show(desc)), base, size))

    if desc["kind"] == "H":
        N0 = list(desc["nodes"])
        E0 = [tuple(sorted(e)) for e in desc["edges"]]
        for detour in (False, True, 2, "shrink"):
            h = C.build(desc, detour=detour)
            # stage 0: the object as built; stages 1-2 (direct build only): a hyperedge with a new node is added to the SAME object and
            # removed again - every centrality has been computed on it before, nothing may be remembered across the change
            stages = [None]
            if detour is False and N0:
                xn = "zz8" if isinstance(N0[0], str) else 10 ** 6 + 1
                stages += ["add", "remove"]
            for stage in stages:
                N, E = list(N0), list(E0)
                try:
                    if stage == "add":
                        h.add_edge(tuple(sorted((N0[0], xn))))
                        N, E = N0 + [xn], E0 + [tuple(sorted((N0[0], xn)))]
                    elif stage == "remove":
                        h.remove_node(xn)
                except Exception as e:
                    bad("second-call/exception", "%s raised %s: %s" % (stage, type(e).__name__, e))
                    break
                tag = "" if stage is None else "second-call/"
                for s in (1, 2, 3):
                    lg = line_graph_def(E, s)
                    for name, fn, ref in (("s_betweenness", S.s_betweenness, nx.betweenness_centrality), ("s_closeness", S.s_closeness, nx.closeness_centrality)):
                        acc.evaluations += 1
                        try:
                            got = fn(h, s=s)
                            want = {E[i]: v for i, v in ref(lg).items()}
                            if not close({tuple(sorted(k)): v for k, v in got.items()}, want) or len(got) != len(E):
                                bad(tag + "%s/value" % name, "s=%d: %r, line-graph definition %r" % (s, got, want))
                            elif any(v > 0 for v in want.values()):
                                acc.nontrivial.add(hash((name, s, repr(E))))
                        except Exception as e:
                            bad("%s/exception" % name, "s=%d raised %s: %s" % (s, type(e).__name__, e))
                bg = bip_def(N, E)
                for name, fn, ref in (("s_betweenness_nodes", S.s_betweenness_nodes, nx.betweenness_centrality), ("s_closeness_nodes", S.s_closeness_nodes, nx.closeness_centrality)):
                    acc.evaluations += 1
                    try:
                        got = fn(h)
                        want = {k[1]: v for k, v in ref(bg).items() if k[0] == "n"}
                        if not close(got, want) or len(got) != len(N):
                            bad(tag + "%s/value" % name, "%r, bipartite definition %r" % (got, want))
                    except Exception as e:
                        bad("%s/exception" % name, "raised %s: %s" % (type(e).__name__, e))
                if not N:
                    continue  # no nodes: nothing to compare
                acc.evaluations += 1
                try:
                    got = np.asarray(subhypergraph_centrality(h)).reshape(-1)
                    order = sorted(N)
                    A = np.zeros((len(N), len(N)))
                    for e in E:
                        for a, b in itertools.permutations(e, 2):
                            A[order.index(a), order.index(b)] += 1
                    want = np.log(np.diag(expm(A)))
                    if got.shape != want.shape or np.abs(got - want).max() > 1e-9 * (1 + np.abs(want).max()):
                        bad(tag + "subhypergraph_centrality/value", "%r, log diag expm(A) = %r (rows in sorted-label order)" % (got.tolist(), want.tolist()))
                except Exception as e:
                    bad("subhypergraph_centrality/exception", "raised %s: %s" % (type(e).__name__, e))
        return
    # temporal: averaged versions
    h = C.build(desc)
    times = sorted({t for t, e in desc["edges"]})
    snaps = {t: [tuple(sorted(e)) for tt, e in desc["edges"] if tt == t] for t in times}
    T = len(times)
    for s in (1, 2):
        for name, fn, ref in (("s_betweenness_averaged", S.s_betweenness_averaged, nx.betweenness_centrality), ("s_closeness_averaged", S.s_closeness_averaged, nx.closeness_centrality)):
            acc.evaluations += 1
            want = {}
            for t in times:
                for i, v in ref(line_graph_def(snaps[t], s)).items():
                    want[snaps[t][i]] = want.get(snaps[t][i], 0) + v
            want = {k: v / T for k, v in want.items()}
            try:
                got = fn(h, s=s)
                if not close({tuple(sorted(k)): v for k, v in got.items()}, want):
                    bad("%s/value" % name, "s=%d: %r, definition %r" % (s, got, want))
                elif T >= 2:
                    acc.nontrivial.add(hash((name, s, repr(desc["edges"]))))
            except Exception as e:
                bad("%s/exception" % name, "s=%d raised %s: %s" % (s, type(e).__name__, e))
    for name, fn, ref in (("s_betweenness_nodes_averaged", S.s_betweenness_nodes_averaged, nx.betweenness_centrality), ("s_closenness_nodes_averaged", S.s_closenness_nodes_averaged, nx.closeness_centrality)):
        acc.evaluations += 1
        want = {}
        for t in times:
            ns = sorted({n for e in snaps[t] for n in e}, key=repr)
            for k, v in ref(bip_def(ns, snaps[t])).items():
                if k[0] == "n":
                    want[k[1]] = want.get(k[1], 0) + v
        want = {k: v / T for k, v in want.items()}
        try:
            got = fn(h)
            if not close(got, want):
                bad("%s/value" % name, "%r, definition %r" % (got, want))
        except Exception as e:
            bad("%s/exception" % name, "raised %s: %s" % (type(e).__name__, e))


# ---- CEC / HEC ----------------------------------------------------------------------------------------
def start_menu(n, tier):
    if n <= 3 or (n == 4 and tier != "quick"):
        return [list(v) for v in itertools.product((0.25, 0.5, 1.0), repeat=n)]
    pats = [[1.0] * n, [0.25] + [1.0] * (n - 1), [1.0] * (n - 1) + [0.25], [0.5, 1.0] * n, [1.0, 0.25] * n, [0.25, 0.5, 1.0] * n,
            [1.0, 0.5, 0.25] * n, [0.5] * n, [0.25, 0.25, 1.0] * n, [1.0, 1.0, 0.25] * n, [0.5, 0.25, 0.25] * n, [0.25, 1.0, 0.5] * n]
    return [p[:n] for p in pats]


def check_eig(item, acc):
    import hypergraphx.measures.eigen_centralities as EC
    from hypergraphx import Hypergraph

    n, k, edges, tier = item
    w = {"kind": "eig", "n": n, "k": k, "edges": [list(e) for e in edges]}
    size = len(edges)

    def mkh(es, preadd):
        h = Hypergraph()
        if preadd:
            for i in range(n):
                h.add_node(i)
            for e in es:
                h.add_edge(e)
        else:
            # nodes only appear through their hyperedges, last hyperedge first, nodes listed in decreasing order: the order in
            # which the object first saw its nodes is not their numeric order (the hypergraphs here cover all their nodes)
            for e in reversed(es):
                h.add_edge(tuple(reversed(e)))
        return h

    h = mkh(edges, False)
    perm = list(range(1, n)) + [0]  # one fixed non-trivial relabelling (the corpus itself is closed under all of them)
    h2 = mkh([tuple(perm[v] for v in e) for e in edges], True)
    W = np.zeros((n, n))
    for e in edges:
        for a, b in itertools.permutations(e, 2):
            W[a, b] += 1
    lam = np.linalg.eigvalsh(W)
    normW = max(abs(lam[0]), abs(lam[-1]))

    def bad(what, msg):
        acc.violations.append(Violation("%s" % what, "%s; %d-uniform hypergraph on 0..%d edges %r" % (msg, k, n - 1, edges), w, size))

    for x0 in start_menu(n, tier):
        def runner(hh, fn, start, **kw):
            def run(ch):
                fake = CH.FakeNumpyRandom(ch, np, menus={"rand": lambda shape: [start], "uniform": lambda shape: [start], "scalar_seq": list(start)})
                with CH.patched(EC, np=CH.NumpyShim(np, fake)):
                    return fn(hh, **kw)
            outs = [res for script, res, ch, pruned in CH.explore(run)]
            # one execution per menu entry; a start vector drawn through another API (e.g. randn) may add sign variants:
            # every one of them must satisfy the property - the first violating result is returned
            return outs

        # ---- CEC
        acc.evaluations += 1
        tol = 1e-7
        try:
            cs = runner(h, EC.CEC_centrality, x0)
            c = cs[0]
            for cand in cs:
                vv = np.array([cand[i] for i in range(n)])
                if sorted(cand.keys()) != list(range(n)) or not np.isfinite(vv).all() or (vv <= 0).any() or abs(np.linalg.norm(vv) - 1) > 1e-9:
                    c = cand
                    break
            v = np.array([c[i] for i in range(n)])
            if sorted(c.keys()) != list(range(n)) or not np.isfinite(v).all() or (v <= 0).any() or abs(np.linalg.norm(v) - 1) > 1e-9:
                bad("CEC/shape", "start %r: %r is not a positive unit-2-norm vector" % (x0, v.tolist()))
            else:
                rho = float(v @ W @ v)
                res = np.linalg.norm(W @ v - rho * v)
                if res > normW * tol + 1e-9:
                    bad("CEC/eigen-equation", "start %r: residual %.3g > %.3g" % (x0, res, normW * tol + 1e-9))
                elif abs(rho - lam[-1]) > normW * tol / v.min() + 1e-9:
                    bad("CEC/not-dominant", "start %r: Rayleigh quotient %.9g, lambda_max %.9g" % (x0, rho, lam[-1]))
                c2 = runner(h2, EC.CEC_centrality, [x0[perm.index(i)] for i in range(n)])[0]
                v2 = np.array([c2[perm[i]] for i in range(n)])
                if np.abs(v2 - v).max() > 1e-9:
                    bad("CEC/relabelling", "start %r: relabelled hypergraph gives %r instead of %r" % (x0, v2.tolist(), v.tolist()))
                acc.outcomes.add(hash(tuple(np.round(v, 6))))
        except (CH.UnownedRandomness, AssertionError):
            raise
        except Exception as e:
            bad("CEC/exception", "start %r raised %s: %s" % (x0, type(e).__name__, e))
        # ---- HEC
        acc.evaluations += 1
        tol = 1e-6
        try:
            cs = runner(h, EC.HEC_centrality, x0)
            c = cs[0]
            for cand in cs:
                vv = np.array([cand[i] for i in range(n)])
                if not np.isfinite(vv).all() or (vv <= 0).any():
                    c = cand
                    break
            v = np.array([c[i] for i in range(n)])
            if sorted(c.keys()) != list(range(n)) or not np.isfinite(v).all() or (v <= 0).any() or abs(np.abs(v).sum() - 1) > 1e-9:
                bad("HEC/shape", "start %r: %r is not a positive unit-1-norm vector" % (x0, v.tolist()))
            else:
                a = np.zeros(n)
                for e in edges:
                    for i in e:
                        a[i] += np.prod([v[j] for j in e if j != i])
                r = a / v ** (k - 1)
                t = tol / v.min()
                bound = ((1 + t) / (1 - t)) ** (k - 1) if t < 1 else np.inf
                if r.max() / r.min() > bound * (1 + 1e-9):
                    bad("HEC/eigen-equation", "start %r: ratios %r spread %.9g > %.9g" % (x0, r.tolist(), r.max() / r.min(), bound))
                c2 = runner(h2, EC.HEC_centrality, [x0[perm.index(i)] for i in range(n)])[0]
                v2 = np.array([c2[perm[i]] for i in range(n)])
                if np.abs(v2 - v).max() > 1e-9:
                    bad("HEC/relabelling", "start %r: relabelled hypergraph gives %r instead of %r" % (x0, v2.tolist(), v.tolist()))
                acc.outcomes.add(hash(tuple(np.round(v, 5))))
        except (CH.UnownedRandomness, AssertionError):
            raise
        except Exception as e:
            bad("HEC/exception", "start %r raised %s: %s" % (x0, type(e).__name__, e))
    if len(edges) >= 2:
        acc.nontrivial.add(hash(("eig", k, edges)))


def eig_items(tier):
    for k, n, me in ((3, 3, 1), (3, 4, 4), (3, 5, 4 if tier == "quick" else 10), (4, 4, 1), (4, 5, 5)):
        nodes = tuple(range(n))
        cands = list(itertools.combinations(nodes, k))
        for r in range(1, min(me, len(cands)) + 1):
            for es in itertools.combinations(cands, r):
                if {v for e in es for v in e} == set(nodes) and len(components(nodes, es)) == 1:
                    yield ("eig", (n, k, es, tier))


def s_corpus(tier):
    me = 3 if tier == "quick" else 4
    yield from C.hypergraph_contents((2, 5, 7, 11), isolated=(13,), lo=1, hi=4, max_edges=me, weighted=(False,), md_styles=(0,))
    yield from C.hypergraph_contents(("a", "b", "c", "E"), isolated=(), lo=1, hi=3, max_edges=me, weighted=(False,), md_styles=(0,))
    yield from C.temporal_contents((2, 5, 7), times=(0, 1, 3), lo=1, hi=3, max_edges=3 if tier == "quick" else 4, min_edges=1, weighted=(False,), md_styles=(0,))
    yield from C.temporal_contents(("a", "E", "c"), times=(0, 2), lo=1, hi=3, max_edges=3, min_edges=1, weighted=(False,), md_styles=(0,))


def check_dense(item, acc):
    """sub-hypergraph centrality where the adjacency matrix has a LARGE top eigenvalue (exp() of it overflows a double): the
    value log diag expm(A) is still an ordinary number, about lambda_max - log N; closed form for these two families"""
    from hypergraphx import Hypergraph
    from hypergraphx.measures.sub_hypergraph_centrality import subhypergraph_centrality

    fam, n = item
    acc.evaluations += 1
    if fam == "one-hyperedge":
        h = Hypergraph([tuple(range(n))])
        pair_mult = 1  # every pair of nodes lies in one hyperedge
    else:
        h = Hypergraph(list(itertools.combinations(range(n), 3)))
        pair_mult = n - 2  # complete 3-uniform: every pair lies in n-2 hyperedges
    # A = m (J - I): eigenvalues m(n-1) once (vector 1/sqrt n) and -m (n-1 times); diag expm(A) = (e^{m(n-1)} + (n-1) e^{-m}) / n
    top = pair_mult * (n - 1)
    want = top + np.log((1 + (n - 1) * np.exp(-pair_mult - top)) / n)
    w = {"kind": "dense", "family": fam, "n": n}
    try:
        got = np.asarray(subhypergraph_centrality(h)).reshape(-1)
        if got.shape != (n,) or not np.isfinite(got).all() or np.abs(got - want).max() > 1e-6 * abs(want):
            acc.violations.append(Violation("subhypergraph_centrality/large-eigenvalue", "%s on %d nodes (lambda_max %d): got %r..., log diag expm(A) = %.6f" % (fam, n, top, got[:3].tolist(), want), w, n))
        else:
            acc.outcomes.add(hash((fam, n)))
    except Exception as e:
        acc.violations.append(Violation("subhypergraph_centrality/exception", "%s on %d nodes raised %s: %s" % (fam, n, type(e).__name__, e), w, n))


def worker(part, acc):
    for kind, item in part:
        if kind == "eig":
            check_eig(item, acc)
        elif kind == "dense":
            check_dense(item, acc)
        else:
            check_s(item, acc)


def run(ctx):
    from ..seams import validate as _validate_seams

    seam_report = _validate_seams(PROP)  # real random sources under a recorder: every API reached must be modelled (else exit 2)
    sc = [("s", d) for d in s_corpus(ctx.tier)]
    eg = list(eig_items(ctx.tier))
    dense = [("dense", ("one-hyperedge", n)) for n in (5, 60, 720)] + [("dense", ("complete-3-uniform", n)) for n in (5, 12, 29, 30)]
    items = sc + eg + dense
    k = ctx.jobs * 6
    shards = [items[i::k] for i in range(k)]
    ev, nt, oc = run_e4(ctx, [it for s in shards for it in s], worker, nchunks=k)
    ctx.part("inputs", s_centrality_contents=len(sc), uniform_connected_hypergraphs=len(eg))
    ctx.require(len(sc) > 1000 and len(eg) > 100, "corpus too small")
    ctx.sample(C.show(sc[(ctx.seed * 37 + 5) % len(sc)][1]))
    e = eg[(ctx.seed * 7 + 3) % len(eg)][1]
    ctx.sample({"uniform": {"n": e[0], "k": e[1], "edges": [list(x) for x in e[2]], "start_vectors": len(start_menu(e[0], ctx.tier))}})
    cov = {
        "seam_validation": seam_report,
        "evaluations": ev, "distinct_nontrivial": len(nt), "exhaustive": True, "distinct_outcomes": len(oc),
        "rule": "s-betweenness/closeness (s=1,2,3), node versions and sub-hypergraph centrality on every Hypergraph over {2,5,7,11}+isolated 13 and over the "
                "string labels {a,b,c,E} with <=3 (quick) / <=4 hyperedges, direct and detour builds; averaged versions on TemporalHypergraphs with <=3/4 records "
                "over times {0,1,3} with int and string labels (including a label containing 'E'); CEC and HEC on every connected covering k-uniform hypergraph "
                "(k=3: N<=5, k=4: N<=5, bounded number of hyperedges) x every start vector of the menu ({1/4,1/2,1}^N for N<=3(4), 12 patterns otherwise), "
                "plus the relabelled hypergraph with the permuted start vector. Non-trivial = centrality with a non-zero value / >= 2 snapshots / >= 2 hyperedges.",
    }
    return ctx.finish(cov, assumptions=["networkx betweenness/closeness and scipy expm are the reference functionals", "start vectors range over a finite menu (alphabet limit)",
                                        "CEC/HEC tolerances derived from the stopping rules (DESIGN 3.C20)"])


def replay(witness, key=None):
    from ..e4 import Acc

    acc = Acc()
    if witness.get("kind") == "eig":
        check_eig((witness["n"], witness["k"], tuple(tuple(e) for e in witness["edges"]), "thorough"), acc)
    elif witness.get("kind") == "dense":
        check_dense((witness["family"], witness["n"]), acc)
    else:
        check_s(C.from_show(witness["desc"]), acc)
    hit = [v for v in acc.violations if key is None or v.key == key or PROP + "/" + v.key == key]
    for v in hit[:3]:
        print("   " + v.msg[:600])
    return bool(hit)
