"""C06 - save then load returns the same hypergraph (4 types x 2 formats); .hgr and HIF readers (E4, exhaustive)."""
import itertools
import json
import os
import shutil
import tempfile

from .. import corpus as C
from ..core import Violation
from ..e4 import run_e4
from ..specs import cdict, cmd, ds, mx, q, st, ts, wv

LEVEL = "exploration"
PROP = "C06"
RESERVED = ("weight", "time", "layer")


def strip(md):
    if not isinstance(md, dict):
        return md
    return {k: v for k, v in md.items() if k not in RESERVED}


def kview(h, kind, strip_reserved):
    f = (lambda md: cmd(strip(md))) if strip_reserved else cmd
    try:
        if kind == "H":
            edges = [(st(e), wv(h.get_weight(e)), f(h.get_edge_metadata(e))) for e in h.get_edges()]
        elif kind == "D":
            edges = [(ds(e), wv(h.get_weight(e)), f(h.get_edge_metadata(e))) for e in h.get_edges()]
        elif kind == "T":
            edges = [(ts(e), wv(h.get_weight(e[1], e[0])), f(h.get_edge_metadata(e[1], e[0]))) for e in h.get_edges()]
        else:
            edges = [(mx(e), wv(h.get_weight(e[0], e[1])), f(h.get_edge_metadata(e[0], e[1]))) for e in h.get_edges()]
        return (
            type(h).__name__, bool(h.is_weighted()),
            cdict(h.get_nodes(metadata=True), fv=cmd),
            tuple(sorted(edges, key=repr)),
            cmd(h.get_hypergraph_metadata()),
        )
    except Exception as e:
        return ("ERR", type(e).__name__, str(e)[:100])


PARTS = ("type", "weightedness", "nodes/node-metadata", "hyperedges/weights/edge-metadata", "hypergraph-metadata")


def first_diff(a, b):
    if a and a[0] == "ERR":
        return "exception"
    for i, (x, y) in enumerate(zip(a, b)):
        if x != y:
            return PARTS[i]
    return "?"


RICH = {"l": [1, 2], "d": {"a": None}, "b": True, "s": "x"}


def enrich(desc, style):
    """style 2: JSON-rich metadata on the first node / first record and a user key at hypergraph level"""
    d = dict(desc)
    if style == 2:
        d["nmd"] = dict(desc["nmd"])
        d["emd"] = dict(desc["emd"])
        if desc["nodes"]:
            d["nmd"][desc["nodes"][-1]] = dict(RICH)
        if desc["edges"]:
            d["emd"][desc["edges"][0]] = dict(RICH)
        d["hmd"] = {"name": "n", "tags": [1, "x"], "nested": {"k": [None]}}
    return d


def roundtrip_one(desc, tmp, acc):
    from hypergraphx.readwrite import load_hypergraph, save_hypergraph

    kind = desc["kind"]
    base = dict(desc=C.show(desc))
    for detour in (False, True, 2, "shrink"):
        for fmt, ext, binary in (("json", ".json", False), ("binary", ".hgx", True)):
            acc.evaluations += 1
            h = C.build(desc, detour=detour)
            before_exact = kview(h, kind, False)
            before = kview(h, kind, True)
            path = os.path.join(tmp, "x" + ext)
            w = dict(base, detour=detour, fmt=fmt)
            size = len(desc["edges"]) + len(desc["nodes"])
            try:
                save_hypergraph(h, path, binary=binary)
            except Exception as e:
                acc.violations.append(Violation("%s/%s/save/exception" % (kind, fmt), "save raised %s: %s on %s" % (type(e).__name__, e, C.show(desc)), w, size))
                continue
            after_exact = kview(h, kind, False)
            if after_exact != before_exact:
                acc.violations.append(Violation("%s/%s/save/source-changed/%s" % (kind, fmt, first_diff(after_exact, before_exact)),
                                                "saving changed the saved object: before %r after %r" % (before_exact, after_exact), w, size))
            try:
                g = load_hypergraph(path)
            except Exception as e:
                acc.violations.append(Violation("%s/%s/load/exception" % (kind, fmt), "load raised %s: %s on %s" % (type(e).__name__, e, C.show(desc)), w, size))
                continue
            got = kview(g, kind, True)
            if got != before:
                acc.violations.append(Violation("%s/%s/roundtrip/%s" % (kind, fmt, first_diff(got, before)),
                                                "loaded %r\n   saved  %r" % (got, before), w, size))
            elif desc["weighted"] and desc["edges"] and not detour:
                # second generation: change a weight on the LOADED object, save and load again
                e0 = desc["edges"][0]
                try:
                    if kind in ("H", "D"):
                        g.set_weight(e0, 9.5)
                    elif kind == "T":
                        g.set_weight(e0[1], e0[0], 9.5)
                    else:
                        g.set_weight(e0[0], e0[1], 9.5)
                    want2 = kview(g, kind, True)
                    save_hypergraph(g, path, binary=binary)
                    g2 = load_hypergraph(path)
                    got2 = kview(g2, kind, True)
                except Exception as e:
                    got2, want2 = ("ERR", type(e).__name__, str(e)[:100]), None
                if got2 != want2:
                    acc.violations.append(Violation("%s/%s/second-generation-roundtrip/%s" % (kind, fmt, first_diff(got2, want2) if want2 else "exception"),
                                                    "load, set_weight, save, load: loaded %r\n   saved  %r" % (got2, want2), w, size))
            if got == before:
                acc.outcomes.add(hash(got))
                if desc["edges"]:
                    acc.nontrivial.add(hash((fmt, got)))


def roundtrip_corpus(tier):
    me = 2 if tier == "quick" else 3
    for sty in (1, 2):
        for U, iso in (((2, 5, 7), (11,)), (("a", "b", "c"), ("d",))):
            for gen in (
                C.hypergraph_contents(U, isolated=iso, lo=1, hi=3, max_edges=me, md_styles=(1,)),
                C.directed_contents(U, isolated=iso, max_edges=me, md_styles=(1,)),
                C.temporal_contents(U[:2], times=(0, 1, 3), isolated=iso, lo=1, hi=2, max_edges=me, md_styles=(1,)),
                C.multiplex_contents(U[:2], layers=("a", "b"), isolated=iso, lo=1, hi=2, max_edges=me, md_styles=(1,)),
            ):
                for d in gen:
                    yield ("rt", enrich(d, sty))
                    if d["weighted"] and d["edges"] and sty == 1:
                        z = dict(d)
                        z["weights"] = (0,) + tuple(d["weights"][1:])  # a weight of exactly 0
                        yield ("rt", enrich(z, sty))


# ------------------------------------------------------------------------------------------------
# hMETIS .hgr: grammar-exhaustive
# ------------------------------------------------------------------------------------------------
def hgr_docs(tier):
    N = 3
    lines_pool = []
    for r in (1, 2, 3):
        for p in itertools.permutations(range(1, N + 1), r):
            lines_pool.append(p)
    maxE = 2 if tier == "quick" else 3
    ins_max = 1 if tier == "quick" else 2
    for fmt in (None, 0, 1, 10, 11):
        weighted = fmt in (1, 11)
        nodew = fmt in (10, 11)
        for E in range(1, maxE + 1):
            for edges in itertools.product(lines_pool, repeat=E):
                sets = [frozenset(e) for e in edges]
                if weighted and len(set(sets)) < len(sets):
                    continue  # repeated node set in a weighted file: outcome not specified
                if E == 3 and len(set(sets)) < 3:
                    continue
                wchoices = list(itertools.product((1, 2), repeat=E)) if weighted else [None]
                if E == 3:
                    wchoices = wchoices[:1] + wchoices[-1:] if weighted else wchoices
                for ws in wchoices:
                    body = []
                    for i, e in enumerate(edges):
                        toks = ([str(ws[i])] if weighted else []) + [str(x) for x in e]
                        body.append(" ".join(toks))
                    tail = [str(5 + i) for i in range(N)] if nodew else []
                    header = "%d %d" % (E, N) + ("" if fmt is None else " %d" % fmt)
                    lines = [header] + body + tail
                    yield ("hgr", (fmt, edges, ws, lines, ()))
                    if E <= 2 and (E == 1 or edges[0] < edges[1]):
                        # deviations: <= ins_max comment/blank lines inserted at every position; double inner spaces
                        n = len(lines)
                        for pos in range(n + 1):
                            for junk in ("% c", "", "%"):
                                yield ("hgr", (fmt, edges, ws, lines[:pos] + [junk] + lines[pos:], ((pos, junk),)))
                        if ins_max >= 2:
                            for p1 in range(n + 1):
                                for p2 in range(p1, n + 2):
                                    l2 = lines[:p1] + ["% a"] + lines[p1:]
                                    l2 = l2[:p2] + [""] + l2[p2:]
                                    yield ("hgr", (fmt, edges, ws, l2, ((p1, "% a"), (p2, ""))))
                        dbl = [header] + [b.replace(" ", "  ") for b in body] + tail
                        if dbl != lines:
                            yield ("hgr", (fmt, edges, ws, dbl, (("double-space", ""),)))
                        yield ("hgr", (fmt, edges, ws, [header] + [b + " " for b in body] + tail, (("trailing-space", ""),)))


def hgr_one(item, tmp, acc):
    from hypergraphx.readwrite import load_hypergraph

    fmt, edges, ws, lines, dev = item
    acc.evaluations += 1
    path = os.path.join(tmp, "f.hgr")
    with open(path, "w") as f:
        f.write("\n".join(lines) + "\n")
    weighted = fmt in (1, 11)
    want = {}
    for i, e in enumerate(edges):
        want[tuple(sorted(e))] = ws[i] if weighted else 1
    w = {"kind": "hgr", "lines": lines}
    devk = "plain" if not dev else ("comment-or-blank" if isinstance(dev[0][0], int) else dev[0][0])
    try:
        h = load_hypergraph(path)
        got = (type(h).__name__, bool(h.is_weighted()), {st(e): h.get_weight(e) for e in h.get_edges()})
    except BaseException as e:  # the reader raises strings in places: anything is "exception" here
        acc.violations.append(Violation("hgr/fmt=%s/%s/exception" % (fmt, devk), "reader raised %s: %s on %r" % (type(e).__name__, e, lines), w, len(lines)))
        return
    exp = ("Hypergraph", weighted, want)
    if got != exp:
        part = "weightedness" if got[1] != exp[1] else ("hyperedges" if set(got[2]) != set(exp[2]) else "weights")
        acc.violations.append(Violation("hgr/fmt=%s/%s/%s" % (fmt, devk, part), "file %r: got %r want %r" % (lines, got, exp), w, len(lines)))
    else:
        acc.outcomes.add(hash(repr(got)))
        acc.nontrivial.add(hash((fmt, tuple(sorted(want.items())), devk)))


# ------------------------------------------------------------------------------------------------
# HIF documents
# ------------------------------------------------------------------------------------------------
def hif_docs(tier):
    names = ["n1", "n2", "n3"]
    enames = ["e1", "e2"]
    maxN = 3
    for nn in range(1, maxN + 1):
        ns = names[:nn]
        subsets = [c for r in range(1, nn + 1) for c in itertools.combinations(ns, r)]
        for ne in (1, 2):
            for inc_sets in itertools.permutations(subsets, ne):  # distinct incidence sets, both orders
                if ne == 2 and tier == "quick" and inc_sets[0] > inc_sets[1]:
                    continue
                for node_records in range(0, 2 ** nn):  # which nodes have a node record
                    if tier == "quick" and node_records not in (0, 2 ** nn - 1, 1):
                        continue
                    for edge_records in range(0, 2 ** ne):
                        for attrs in (False, True):
                            for hdr in (("undirected", True), (None, False), ("asc", False)):
                                for inc_order in ((0,), (1,)) if tier != "quick" else ((0,),):
                                    yield ("hif", (ns, enames[:ne], inc_sets, node_records, edge_records, attrs, hdr, inc_order[0]))


def hif_build(item):
    ns, es, inc_sets, nrec, erec, attrs, (typ, meta), rev = item
    doc = {}
    if typ is not None:
        doc["type"] = typ
    if meta:
        doc["metadata"] = {"name": "doc", "k": [1, 2]}
    incid = []
    for ei, s in enumerate(inc_sets):
        for n in s:
            rec = {"edge": es[ei], "node": n}
            if attrs:
                rec["weight"] = 2 + ei
                rec["attrs"] = {"role": "%s-%s" % (es[ei], n)}
            incid.append(rec)
    if rev:
        incid = incid[::-1]
    doc["incidences"] = incid
    doc["nodes"] = []
    for i, n in enumerate(ns):
        if nrec >> i & 1:
            rec = {"node": n}
            if attrs:
                rec["attrs"] = {"colour": "c" + n}
            doc["nodes"].append(rec)
    doc["edges"] = []
    for i, e in enumerate(es):
        if erec >> i & 1:
            rec = {"edge": e}
            if attrs:
                rec["attrs"] = {"kind": "k" + e}
            doc["edges"].append(rec)
    return doc


def hif_one(item, tmp, acc):
    from hypergraphx.readwrite import read_hif

    doc = hif_build(item)
    acc.evaluations += 1
    path = os.path.join(tmp, "d.json")
    with open(path, "w") as f:
        json.dump(doc, f)
    w = {"kind": "hif", "doc": doc}
    size = len(doc["incidences"]) + len(doc["nodes"]) + len(doc["edges"])

    def bad(what, msg):
        acc.violations.append(Violation("hif/%s" % what, "%s; document %s" % (msg, json.dumps(doc)), w, size))

    try:
        h = read_hif(path)
    except Exception as e:
        return bad("exception", "read_hif raised %s: %s" % (type(e).__name__, e))
    inc_by_edge = {}
    for r in doc["incidences"]:
        inc_by_edge.setdefault(r["edge"], set()).add(r["node"])
    file_nodes = {r["node"] for r in doc["incidences"]} | {r["node"] for r in doc["nodes"]}
    # recover the name -> id mapping from the stored records
    name_of = {}
    try:
        for nid, md in h.get_nodes(metadata=True).items():
            if isinstance(md, dict) and "node" in md:
                name_of.setdefault(nid, set()).add(md["node"])
        for (edge, nid), rec in h.get_all_incidences_metadata().items():
            name_of.setdefault(nid, set()).add(rec["node"])
    except Exception as e:
        return bad("records/exception", "cannot read stored records: %s" % e)
    if any(len(v) != 1 for v in name_of.values()):
        return bad("mapping/not-a-function", "a loaded node carries records of several file nodes: %r" % name_of)
    m = {nid: next(iter(v)) for nid, v in name_of.items()}
    if sorted(m.values()) != sorted(file_nodes) or set(m) != set(h.get_nodes()):
        return bad("mapping/not-bijective", "loaded nodes %r with names %r vs file nodes %r" % (h.get_nodes(), m, sorted(file_nodes)))
    got_edges = {frozenset(m[n] for n in e) for e in h.get_edges()}
    want_edges = {frozenset(s) for s in inc_by_edge.values()}
    if got_edges != want_edges or len(h.get_edges()) != len(want_edges):
        return bad("hyperedges", "hyperedges %r, incidence sets %r" % (sorted(map(sorted, got_edges)), sorted(map(sorted, want_edges))))
    inv = {v: k for k, v in m.items()}
    for r in doc["nodes"]:
        if h.get_node_metadata(inv[r["node"]]) != r:
            return bad("node-record", "node %s: stored %r, file record %r" % (r["node"], h.get_node_metadata(inv[r["node"]]), r))
    for r in doc["edges"]:
        if r["edge"] in inc_by_edge:
            e = tuple(sorted(inv[n] for n in inc_by_edge[r["edge"]]))
            if q(lambda: h.get_edge_metadata(e)) != r:
                return bad("edge-record", "edge %s: stored %r, file record %r" % (r["edge"], q(lambda: h.get_edge_metadata(e)), r))
    for r in doc["incidences"]:
        e = tuple(sorted(inv[n] for n in inc_by_edge[r["edge"]]))
        if q(lambda: h.get_incidence_metadata(e, inv[r["node"]])) != r:
            return bad("incidence-record", "incidence %r: stored %r" % (r, q(lambda: h.get_incidence_metadata(e, inv[r["node"]]))))
    if "metadata" in doc and q(lambda: h.get_hypergraph_metadata()) != doc["metadata"]:
        return bad("metadata", "document metadata %r, stored %r" % (doc["metadata"], q(lambda: h.get_hypergraph_metadata())))
    acc.outcomes.add(hash(repr(sorted(map(sorted, got_edges)))))
    acc.nontrivial.add(hash(json.dumps(doc, sort_keys=True)))


# ------------------------------------------------------------------------------------------------
def worker(part, acc):
    tmp = tempfile.mkdtemp(prefix="hgxmc-c06-")
    try:
        for kind, item in part:
            if kind == "rt":
                roundtrip_one(item, tmp, acc)
            elif kind == "hgr":
                hgr_one(item, tmp, acc)
            else:
                hif_one(item, tmp, acc)
    finally:
        shutil.rmtree(tmp, ignore_errors=True)


def run(ctx):
    rt = list(roundtrip_corpus(ctx.tier))
    hg = list(hgr_docs(ctx.tier))
    hf = list(hif_docs(ctx.tier))
    items = rt + hg + hf
    ev, nt, oc = run_e4(ctx, items, worker)
    ctx.part("inputs", roundtrip_contents=len(rt), hgr_files=len(hg), hif_documents=len(hf))
    ctx.require(len(rt) > 500 and len(hg) > 1000 and len(hf) > 500, "corpus too small")
    ctx.sample(C.show(rt[(ctx.seed * 7) % len(rt)][1]))
    ctx.sample({"hgr": hg[(ctx.seed * 13 + 5) % len(hg)][1][3]})
    ctx.sample({"hif": hif_build(hf[(ctx.seed * 11 + 3) % len(hf)][1])})
    cov = {
        "evaluations": ev, "distinct_nontrivial": len(nt), "exhaustive": True, "distinct_outcomes": len(oc),
        "rule": "round trip: every content of the four container types with <=2 (quick) / <=3 (thorough) records over 2-3 nodes + an isolated node, int and "
                "string labels, weighted (injective weights) and not, plain and JSON-rich metadata (lists, nested dicts, null, bool) at node/hyperedge/"
                "hypergraph level, built directly and by a detour history, x {json, binary}. .hgr: every file with header fmt in {none,0,1,10,11}, <=2/3 "
                "hyperedge lines over vertices 1..3 in every listing order, weights 1-2, node-weight lines, and <=1/2 comment or blank lines inserted at "
                "every position, double/trailing spaces. HIF: every document over <=3 nodes and <=2 edges with distinct incidence sets, every subset of "
                "node/edge records present, with/without attribute dicts, type in {undirected, asc, absent}. Non-trivial = distinct inputs with >=1 hyperedge "
                "that passed the oracle.",
    }
    return ctx.finish(cov, assumptions=["temporary files live in a per-worker tempfile.mkdtemp() directory removed afterwards",
                                        "metadata compared after JSON normalisation (tuple == list); True == 1"])


def replay(witness, key=None):
    from ..e4 import Acc

    acc = Acc()
    tmp = tempfile.mkdtemp(prefix="hgxmc-c06-")
    try:
        if witness.get("kind") == "hgr":
            # re-derive the expectation from the file itself is not possible; re-run enumeration lookup
            for tier in ("quick", "thorough"):
                for k, item in hgr_docs(tier):
                    if item[3] == witness["lines"]:
                        hgr_one(item, tmp, acc)
                        break
                if acc.evaluations:
                    break
        elif witness.get("kind") == "hif":
            for k, item in hif_docs("thorough"):
                if hif_build(item) == witness["doc"]:
                    hif_one(item, tmp, acc)
                    break
        else:
            roundtrip_one(C.from_show(witness["desc"]), tmp, acc)
    finally:
        shutil.rmtree(tmp, ignore_errors=True)
    hit = [v for v in acc.violations if key is None or v.key == key or PROP + "/" + v.key == key]
    for v in hit[:3]:
        print("   " + v.msg[:600])
    return bool(hit)
