"""C13 - configuration models preserve every node's degree and every hyperedge size (E3).

Undirected: full tree of every random answer (proposal pairs, redraws within a budget, reshuffle coins)
for n_steps <= 2 (quick) / 3 (thorough).  Directed: the function fixes 10m + 10m proposals itself, so
deviation-bounded mode: default answer = the no-op proposal (0,0); every placement of <= D effective
proposals (each with every node choice) among ALL 20m proposals.
"""
import itertools
from collections import Counter

import numpy as np

from .. import choice as CH
from .. import corpus as C
from ..core import Violation
from ..e4 import run_e4

LEVEL = "model_checking"
PROP = "C13"


def mk(edges):
    from hypergraphx import Hypergraph

    return Hypergraph(edge_list=list(edges))


def degs(edges):
    d = Counter()
    for e in edges:
        for v in e:
            d[(v, len(e))] += 1
    return d


def check_undirected(item, acc):
    import hypergraphx.generation.configuration_model as CM

    edges, n_steps, label, detailed, size_arg, R = item
    h = mk(edges)
    E_in = [tuple(sorted(e)) for e in h.get_edges()]
    din = degs(E_in)
    tot_in = Counter()
    for (v, k), c in din.items():
        tot_in[v] += c
    w = {"kind": "undirected", "edges": [list(e) for e in edges], "n_steps": n_steps, "label": label, "detailed": detailed, "size": size_arg, "R": R}
    size = len(edges) + n_steps
    kw = {} if size_arg is None else ({"size": size_arg[1]} if size_arg[0] == "size" else {"order": size_arg[1] - 1})
    restrict = None if size_arg is None else size_arg[1]

    stall = None
    if isinstance(R, (tuple, list)):
        # ("stall", i, j, D): the first D proposal draws all answer the pair (i, j) - a long run of rejected redraws when the two
        # hyperedges differ in size (one legitimate random outcome among the others) - and the full tree is explored after it
        stall, R = tuple(R), 0

    def run(ch):
        fake = CH.FakeNumpyRandom(ch, np) if stall is None else StallNumpyRandom(ch, np, stall[1], stall[2], stall[3])
        with CH.patched(CM, np=CH.NumpyShim(np, fake)):
            return CM.configuration_model(h, n_steps=n_steps, label=label, detailed=detailed, **kw)

    outs = set()
    moved = 0
    try:
        for script, res, ch, pruned in acc.explore(run, budgets={"np.randint": 2 * (n_steps + R)}):
            acc.evaluations += 1
            if pruned:
                acc.count("undirected-pruned-redraw-budget")
                continue
            E_out = [tuple(sorted(e)) for e in res.get_edges()]
            outs.add(tuple(sorted(E_out)))
            dout = degs(E_out)
            tot_out = Counter()
            for (v, k), c in dout.items():
                tot_out[v] += c

            def bad(what, msg):
                acc.violations.append(Violation("undirected/%s/%s" % ("detailed" if detailed else "coarse", what),
                                                "%s; input %r n_steps=%d label=%s detailed=%s %r script %r -> %r" % (msg, E_in, n_steps, label, detailed, kw, script, sorted(E_out)),
                                                dict(w, script=list(script)), size))

            if len(set(E_out)) != len(E_out) or any(len(set(e)) != len(e) for e in E_out):
                bad("malformed", "output has a repeated hyperedge or a hyperedge with a repeated node")
            if detailed:
                if any(dout[k] > din[k] for k in dout):
                    bad("degree-increase", "some (node, size) degree increased")
            elif any(tot_out[v] > tot_in[v] for v in tot_out):
                bad("degree-increase", "some total degree increased")
            if len(E_out) == len(E_in):
                if sorted(map(len, E_out)) != sorted(map(len, E_in)):
                    bad("size-multiset", "hyperedge count preserved but size multiset changed")
                if detailed and dout != din:
                    bad("degree-not-preserved", "hyperedge count preserved but some (node, size) degree changed")
                if not detailed and tot_out != tot_in:
                    bad("degree-not-preserved", "hyperedge count preserved but some total degree changed")
            if restrict is not None:
                keep = [e for e in E_in if len(e) != restrict]
                if any(e not in E_out for e in keep) or sorted(e for e in E_out if len(e) != restrict) != sorted(keep):
                    bad("other-sizes-touched", "hyperedges of other sizes are not returned intact")
            if sorted(E_out) != sorted(E_in):
                moved += 1
    except CH.UnownedRandomness:
        raise
    except Exception as e:
        acc.violations.append(Violation("undirected/exception", "raised %s: %s on %r" % (type(e).__name__, e, w), w, size))
        return
    acc.outcomes.add(hash((tuple(E_in), n_steps, label, detailed, size_arg, len(outs))))
    if len(outs) >= 2:
        acc.nontrivial.add(hash((tuple(E_in), n_steps, label, detailed, size_arg)))
    acc.count("undirected-configs")
    if len(outs) >= 2:
        acc.count("undirected-configs-with-several-outcomes")


class StallNumpyRandom(CH.FakeNumpyRandom):
    """the first D pair draws are forced to (i, j) (no choice point, no budget); every later draw is a choice point as usual"""

    def __init__(self, ch, real_np, i, j, D):
        CH.FakeNumpyRandom.__init__(self, ch, real_np)
        self.pair, self.left = (i, j), D

    def randint(self, low, high=None, size=None):
        lo, hi = (0, low) if high is None else (low, high)
        if self.left > 0 and size == 2 and lo <= min(self.pair) and max(self.pair) < hi:
            self.left -= 1
            return self.np.array(self.pair)
        return CH.FakeNumpyRandom.randint(self, low, high, size)


class PairedStdRandom(CH.FakeStdRandom):
    """randint calls come in pairs (id1, id2): the pair is ONE proposal. The default pair (0,0) is the no-op;
    a non-default id1 costs one deviation and makes id2 free; choice() is only reached by effective proposals."""

    def __init__(self, ch):
        super().__init__(ch)
        self.n = 0
        self.prev = 0

    def randint(self, a, b):
        self.n += 1
        if self.n % 2 == 1:
            r = self.ch.choose(b - a + 1, "std.randint", 1)
            self.prev = r
        else:
            r = self.ch.choose(b - a + 1, "std.randint", 0 if self.prev else 1)
        return a + r

    def choice(self, seq):
        seq = list(seq)
        return seq[self.ch.choose(len(seq), "std.choice", 0)]


def ddegs(edges):
    i, o, shapes = Counter(), Counter(), Counter()
    for s, t in edges:
        for v in s:
            i[v] += 1
        for v in t:
            o[v] += 1
        shapes[(len(s), len(t))] += 1
    return i, o, shapes


def check_directed(item, acc):
    import hypergraphx.generation.directed_configuration_model as DCM
    from hypergraphx import DirectedHypergraph

    edges, D = item
    h = DirectedHypergraph(edge_list=list(edges))
    E_in = list(h.get_edges())
    iin, oin, shin = ddegs(E_in)
    w = {"kind": "directed", "edges": [repr(e) for e in edges], "D": D}
    size = len(edges)

    def run(ch):
        with CH.patched(DCM, random=PairedStdRandom(ch)):
            return DCM.directed_configuration_model(h)

    outs = set()
    try:
        for script, res, ch, pruned in acc.explore(run, max_dev=D):
            acc.evaluations += 1
            E_out = list(res.get_edges())
            outs.add(tuple(sorted(E_out)))
            io, oo, sho = ddegs(E_out)

            def bad(what, msg):
                acc.violations.append(Violation("directed/%s" % what, "%s; input %r script(nonzero positions) %r -> %r" % (msg, E_in, [(i, a) for i, a in enumerate(script) if a], sorted(E_out)),
                                                dict(w, script=list(script)), size))

            if any(io[v] > iin[v] for v in io) or any(oo[v] > oin[v] for v in oo):
                bad("degree-increase", "an in- or out-degree increased")
            if len(E_out) == len(E_in):
                if io != iin or oo != oin:
                    bad("degree-not-preserved", "hyperedge count preserved but an in/out degree changed")
                if sho != shin:
                    bad("shape-multiset", "hyperedge count preserved but the (source size, target size) multiset changed")
    except CH.UnownedRandomness:
        raise
    except Exception as e:
        acc.violations.append(Violation("directed/exception", "raised %s: %s on %r" % (type(e).__name__, e, w), w, size))
        return
    acc.outcomes.add(hash((tuple(E_in), D, len(outs))))
    acc.count("directed-configs")
    if len(outs) >= 2:
        acc.nontrivial.add(hash((tuple(E_in), D)))
        acc.count("directed-configs-with-several-outcomes")


def mixing(es):
    """some same-size pair whose reshuffle can produce a new hyperedge (symmetric difference >= 4 nodes)"""
    return any(len(a) == len(b) and len(set(a) ^ set(b)) >= 4 for a, b in itertools.combinations(es, 2))


def undirected_items(tier):
    U = (1, 2, 3, 4, 5)
    cands = [c for r in (2, 3) for c in itertools.combinations(U, r)] + ([(1, 2, 3, 4), (2, 3, 4, 5)] if tier != "quick" else [])
    two = list(itertools.combinations(cands, 2))
    three = list(itertools.combinations(cands, 3))
    inputs = [es for es in two if mixing(es)] + [es for es in two if not mixing(es)][:: (12 if tier == "quick" else 3)]
    inputs += [es for es in three if mixing(es)][:: (14 if tier == "quick" else 3)]
    inputs += [es for es in three if not mixing(es)][:: (60 if tier == "quick" else 10)]
    # sizes differing by two or more (the capacity test of the reshuffle must use each hyperedge's own size)
    inputs += [((1, 2, 3, 4), (4, 5)), ((1, 2, 3, 4), (1, 5)), ((1, 2, 3, 4, 5), (1, 2)), ((1, 2, 3, 4), (2, 5), (3, 5))]
    # singleton hyperedges next to a mixing pair: size=1 / order=0 must restrict the reshuffle to them (0 is a valid order)
    inputs += [((1,), (2,), (1, 2), (3, 4)), ((3,), (1, 2), (3, 4)), ((1,), (5,), (1, 2, 3), (2, 4, 5))]
    stalled = {}
    for es in inputs:
        sizes = sorted({len(e) for e in es})
        for n_steps in ((0, 1, 2) if tier == "quick" else (0, 1, 2, 3)):
            if n_steps == 3 and len(es) > 2:
                continue
            for label in ("edge", "stub"):
                if label == "stub" and n_steps == 0:
                    continue
                for detailed in (True, False):
                    if detailed and len({len(e) for e in es}) > 1 and n_steps > 0:
                        # redraw loop until a same-size pair comes up: R redraws explored in addition
                        Rs = (0, 1) if n_steps == 1 else (0,)
                    else:
                        Rs = (0,)
                    for R in Rs:
                        yield ("U", (es, n_steps, label, detailed, None, R))
                    if detailed and len(sizes) > 1 and n_steps == 1:
                        nst = stalled.get(len(es), 0)
                        if nst < (10 if tier == "quick" else 60) or len(es) > 3 or max(sizes) > 3:
                            stalled[len(es)] = nst + 1
                            m = len(es)
                            for i, j in itertools.permutations(range(m), 2):
                                for D in ((30, 300) if nst else (30, 300, 3000)) + ((30000,) if tier != "quick" and nst == 0 else ()):
                                    yield ("U", (es, n_steps, label, detailed, None, ("stall", i, j, D)))
                    if n_steps in (1, 2) and label == "edge":
                        for s in sizes:
                            yield ("U", (es, n_steps, label, detailed, ("size", s), 0))
                        yield ("U", (es, n_steps, label, detailed, ("order", sizes[0]), 0))


def directed_items(tier):
    U = (1, 2, 3, 4)
    cands = C.directed_pairs(U, max_size=3)
    two = list(itertools.combinations(cands, 2))
    three = list(itertools.combinations(cands, 3))
    if tier == "quick":
        for es in two[::9]:
            yield ("D", (es, 2))
        for es in three[::400]:
            yield ("D", (es, 1))
    else:
        for es in two[::3]:
            yield ("D", (es, 2))
        for es in two[::40]:
            yield ("D", (es, 3))
        for es in three[::60]:
            yield ("D", (es, 1))
        for es in three[::900]:
            yield ("D", (es, 2))


def worker(part, acc):
    for kind, item in part:
        if kind == "U":
            check_undirected(item, acc)
        else:
            check_directed(item, acc)


def run(ctx):
    from ..seams import validate as _validate_seams

    seam_report = _validate_seams(PROP)  # real random sources under a recorder: every API reached must be modelled (else exit 2)
    un = list(undirected_items(ctx.tier))
    di = list(directed_items(ctx.tier))
    items = un + di
    k = ctx.jobs * 8
    shards = [items[i::k] for i in range(k)]
    ev, nt, oc = run_e4(ctx, [it for s in shards for it in s], worker, nchunks=k, budget=40000000 if ctx.tier == "quick" else 800000000, config_cap=60000 if ctx.tier == "quick" else 1200000)
    ctx.part("inputs", undirected_configurations=len(un), directed_inputs=len(di), executions=ev)
    nu = ctx.counts.get("undirected-configs", 0)
    nd = ctx.counts.get("directed-configs", 0)
    if not ctx.violations:
        ctx.require(ctx.counts.get("directed-configs-with-several-outcomes", 0) * 2 >= nd, "fewer than half of the directed inputs ever leave their initial configuration")
        ctx.require(ctx.counts.get("undirected-configs-with-several-outcomes", 0) * 3 >= nu, "too few undirected configurations with more than one outcome (%d of %d)"
                    % (ctx.counts.get("undirected-configs-with-several-outcomes", 0), nu))
    u = un[(ctx.seed * 13 + 1) % len(un)][1]
    ctx.sample({"undirected": {"edges": [list(e) for e in u[0]], "n_steps": u[1], "label": u[2], "detailed": u[3], "size/order": u[4], "extra_redraws": u[5]}})
    d = di[(ctx.seed * 7 + 1) % len(di)][1]
    ctx.sample({"directed": {"edges": [repr(e) for e in d[0]], "max_effective_proposals": d[1]}})
    cov = {
        "seam_validation": seam_report,
        "states": len(oc), "transitions": ev, "traces_validated_against_impl": ev, "evaluations": ev, "distinct_nontrivial": len(nt), "exhaustive": not (ctx.counts.get("configurations-capped-by-budget", 0) or ctx.counts.get("configurations-skipped-budget-exhausted", 0)),
        "configurations_capped_or_skipped_by_execution_budget": ctx.counts.get("configurations-capped-by-budget", 0) + ctx.counts.get("configurations-skipped-budget-exhausted", 0),
        "pruned_at_redraw_budget": ctx.counts.get("undirected-pruned-redraw-budget", 0),
        "rule": "undirected: every input with 2-3 hyperedges of size 2-3 over 4 (5) nodes x n_steps 0..2 (3) x label edge/stub x detailed T/F x size/order "
                "restriction; FULL tree of random answers: every ordered proposal pair, every reshuffle coin; the same-size redraw loop is cut by a call budget "
                "(n_steps + R proposals; a rejected redraw leaves the chain state unchanged). directed: deviation-bounded - the default proposal (0,0) is the "
                "no-op, every placement of <= D effective proposals, each with every node choice, among all 20m proposals. states = distinct (configuration, "
                "#outcomes) records, transitions = executions; non-trivial = configuration with >= 2 distinct outputs.",
    }
    return ctx.finish(cov, assumptions=["np.random / random reached only through module-level names (seams)", "np.random.rand() is only compared with 0.5"])


def replay(witness, key=None):
    import ast
    from ..e4 import Acc

    acc = Acc()
    if witness["kind"] == "undirected":
        sz = witness["size"]
        check_undirected((tuple(tuple(e) for e in witness["edges"]), witness["n_steps"], witness["label"], witness["detailed"], tuple(sz) if sz else None, witness["R"]), acc)
    else:
        check_directed((tuple(ast.literal_eval(e) for e in witness["edges"]), witness["D"]), acc)
    hit = [v for v in acc.violations if key is None or v.key == key or PROP + "/" + v.key == key]
    for v in hit[:3]:
        print("   " + v.msg[:700])
    return bool(hit)
