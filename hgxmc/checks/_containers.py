"""Common driver for the container properties C01-C04."""
import ast

from ..core import HarnessError
from ..explore import build, check_step, explore, diff_obs
from ..specs import make_spec


def run_container_check(ctx, profiles, min_model_states=None):
    tot = {"states": 0, "transitions": 0, "executions": 0, "model_states": 0}
    samples = []
    import os
    only = os.environ.get("HGX_ONLY")
    for mode, prof, kw in profiles:
        if only and prof.name not in only.split(","):
            continue
        r = explore(ctx, prof, mode=mode, **kw)
        ctx.part(prof.name, mode=mode, weighted=prof.weighted, ops=r["ops"], states=r["states"],
                 model_states=r["model_states"], transitions=r["transitions"], impl_executions=r["executions"],
                 levels=r["levels"], fixpoint=r["fixpoint"])
        for k in tot:
            tot[k] += r[k]
        if mode == "closure":
            ctx.require(r["fixpoint"], "closure of profile %s did not reach a fixpoint" % prof.name)
        want = (min_model_states or {}).get(prof.name)
        if want is not None and not ctx.violations:
            ctx.require(r["model_states"] >= want, "profile %s reached %d model states, expected >= %d"
                        % (prof.name, r["model_states"], want))
        pick = r["samples"]
        if pick:
            i = ctx.seed % len(pick)
            samples.append({"profile": prof.name, "history": [repr(o) for o in pick[i]]})
    ctx.samples = samples[:10]
    lenient = sum(v for k, v in ctx.counts.items() if "lenient" in k)
    cov = {
        "states": tot["states"],
        "transitions": tot["transitions"],
        "traces_validated_against_impl": tot["executions"],
        "model_states": tot["model_states"],
        "evaluations": tot["executions"],
        "exhaustive": True,
        "rule": "closure profiles: complete reachable state graph of the reference model over the profile's alphabet, every "
                "transition executed on the real class from up to `reps` representative histories with different private tables; "
                "history profiles: every history up to the stated depth (states merged only on identical model state and identical "
                "private tables). After each executed operation the whole public query surface is compared with the reference.",
        "oracle_lenient_points_hit": lenient,
    }
    return ctx.finish(cov, assumptions=[
        "reference model (hgxmc/models/mapmodel.py) and facade answers (hgxmc/specs.py) are correct",
        "copy.deepcopy forks implementation states faithfully",
        "node labels are small ints / short strings; weights are small ints",
    ])


def replay(witness, key=None):
    spec = make_spec(witness["spec"], witness["args"])
    hist = tuple(ast.literal_eval(s) for s in witness["hist"])
    weighted = witness["weighted"]
    if witness["op"] is None:
        d = diff_obs(spec.observe(spec.new(weighted)), spec.observe(spec.facade(spec.model(weighted))))
        if d is not None:
            print("   fresh object: %s: implementation %r, reference %r" % d)
        return d is not None
    op = ast.literal_eval(witness["op"])
    model = spec.model(weighted)
    for i, o in enumerate(hist):
        model = pick_alt(spec, model, weighted, hist, i)
    impl = build(spec, weighted, hist)
    pre = spec.observe(impl)
    tag = key.split("/")[1] if key else "replay"
    v, s, flags = check_step(spec, tag, model, impl, pre, op, hist, weighted)
    if v is not None:
        print("   " + v.msg)
        return True
    return False


def pick_alt(spec, model, weighted, hist, i):
    """follow the alternative the implementation takes (as the explorer did)"""
    alts = [a for a in model.apply(hist[i]) if a is not None]
    if len(alts) == 1:
        return alts[0]
    impl = build(spec, weighted, hist[: i + 1])
    obs = spec.observe(impl)
    for a in alts:
        o = spec.normalize(obs, a) if hasattr(spec, "normalize") else obs
        if spec.observe(spec.facade(a)) == o:
            return a
    return alts[0]
