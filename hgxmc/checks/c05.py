"""C05 - sub-hypergraph extraction and copy are faithful and leave the source untouched (E4, exhaustive)."""
import itertools

from .. import corpus as C
from ..core import Violation
from ..e4 import run_e4
from ..specs import DirectedSpec, HypergraphSpec, cdict, cmd, ds, q, st, wv

LEVEL = "exploration"
PROP = "C05"


def hview(h, disp=st):
    try:
        return (
            bool(h.is_weighted()),
            cdict(h.get_nodes(metadata=True), fv=cmd),
            tuple(sorted(((disp(e), wv(h.get_weight(e)), cmd(h.get_edge_metadata(e))) for e in h.get_edges()), key=repr)),
        )
    except Exception as e:
        return ("ERR", repr(e))


def expect(desc, nodes, edges, disp=st):
    wmap = dict(zip(desc["edges"], desc["weights"])) if desc["weighted"] else {}
    return (
        desc["weighted"],
        tuple(sorted(((n, cmd(desc["nmd"].get(n, {}))) for n in nodes), key=repr)),
        tuple(sorted(((disp(e), wmap.get(e, 1), cmd(desc["emd"].get(e, {}))) for e in edges), key=repr)),
    )


def esize(desc, e):
    return len(e) if desc["kind"] == "H" else len(e[0]) + len(e[1])


def enodes(desc, e):
    return set(e) if desc["kind"] == "H" else set(e[0]) | set(e[1])


def components(nodes, edges):
    parent = {n: n for n in nodes}

    def find(x):
        while parent[x] != x:
            parent[x] = parent[parent[x]]
            x = parent[x]
        return x

    for e in edges:
        e = list(e)
        for x in e[1:]:
            parent[find(x)] = find(e[0])
    comp = {}
    for n in nodes:
        comp.setdefault(find(n), set()).add(n)
    return list(comp.values())


def selections(desc, tier):
    """yield (name, key-class, call(h) -> result, expected nodes, expected edges | callable acceptor)"""
    N, E = desc["nodes"], desc["edges"]
    K = 4
    if desc["kind"] == "H":
        for r in range(0, len(N) + 1):
            for S in itertools.combinations(N, r):
                yield ("subhypergraph(%r)" % (list(S),), "subhypergraph",
                       (lambda h, S=S: h.subhypergraph(list(S))), S, [e for e in E if set(e) <= set(S)])
        vals = list(range(0, K + 1))
        lists = [[a] for a in vals] + [[a, b] for a in vals for b in vals if a != b]
        for L in lists:
            for keep in (True, False):
                for what in ("orders", "sizes"):
                    sizes = [x + 1 for x in L] if what == "orders" else L
                    sel = [e for e in E if len(e) in sizes]
                    nodes = N if keep else sorted({n for e in sel for n in e})
                    yield ("subhypergraph_by_orders(%s=%r,keep_nodes=%s)" % (what, L, keep), "subhypergraph_by_orders",
                           (lambda h, L=L, keep=keep, what=what: h.subhypergraph_by_orders(**{what: list(L)}, keep_nodes=keep)), nodes, sel)
        for comp_f in ((), (("size", 2),), (("size", 3),), (("order", 1),), (("order", 2),)):
            if not N:
                continue
            d = dict(comp_f)
            sz = d.get("size", d.get("order", -1) + 1) if d else None
            fe = [e for e in E if sz is None or len(e) == sz]
            comps = components(N, fe)
            mx = max(len(c) for c in comps)
            ok_nodes = [frozenset(c) for c in comps if len(c) == mx]
            yield ("subhypergraph_largest_component(%s)" % (d,), "subhypergraph_largest_component",
                   (lambda h, d=d: h.subhypergraph_largest_component(**d)), ("ANYOF", ok_nodes), None)
    # Hypergraph and DirectedHypergraph: get_edges(..., subhypergraph=True)
    filt = [()]
    for k in range(0, K + 1):
        for up in (False, True):
            filt.append((("order", k), ("up_to", up)))
            filt.append((("size", k + 1), ("up_to", up)))
    for f in filt:
        d = dict(f)
        if d:
            order = d["order"] if "order" in d else d["size"] - 1
            sel = [e for e in E if (esize(desc, e) - 1 <= order if d.get("up_to") else esize(desc, e) - 1 == order)]
        else:
            sel = list(E)
        for keep in (False, True):
            nodes = N if keep else sorted({n for e in sel for n in enodes(desc, e)}, key=repr)
            yield ("get_edges(%s,subhypergraph=True,keep_isolated_nodes=%s)" % (d, keep), "get_edges-subhypergraph",
                   (lambda h, d=d, keep=keep: h.get_edges(subhypergraph=True, keep_isolated_nodes=keep, **d)), nodes, sel)


def mutation_ops(desc):
    """small alphabet used to show that a copy and its original are independent"""
    N, E = desc["nodes"], desc["edges"]
    k = desc["kind"]
    new_node = "new" if N and isinstance(N[0], str) else 999
    ops = [("add_node", lambda h: h.add_node(new_node)), ("set_attr_hg", lambda h: h.set_attr_to_hypergraph_metadata("zz", 1))]
    if N:
        n0 = N[0]
        ops += [("set_attr_node", lambda h: h.set_attr_to_node_metadata(n0, "zz", 1)),
                ("set_node_metadata", lambda h: h.set_node_metadata(n0, {"zz": 2})),
                ("remove_node", lambda h: h.remove_node(n0)),
                ("remove_node-keep", lambda h: h.remove_node(n0, keep_edges=True))]
        ne = (n0, new_node) if k == "H" else ((n0,), (new_node,))
        ops.append(("add_edge-new", lambda h: h.add_edge(ne)))
    if E:
        e0 = E[0]
        ops += [("add_edge-existing", lambda h: h.add_edge(e0, weight=2) if desc["weighted"] else h.add_edge(e0)),
                ("remove_edge", lambda h: h.remove_edge(e0)),
                ("set_attr_edge", lambda h: h.set_attr_to_edge_metadata(e0, "zz", 1)),
                ("set_edge_metadata", lambda h: h.set_edge_metadata(e0, {"zz": 2}))]
        if desc["weighted"]:
            ops.append(("set_weight", lambda h: h.set_weight(e0, 11)))
    ops.append(("clear", lambda h: h.clear()))
    return ops


def check_one(desc, tier, acc):
    disp = st if desc["kind"] == "H" else ds
    base = dict(desc=C.show(desc))
    for detour in (False, True, 2, "shrink"):
        h = C.build(desc, detour=detour)
        spec = (HypergraphSpec(tuple(desc["nodes"]) or (1,), "absent-node") if desc["kind"] == "H" else None)
        v0 = hview(h, disp)
        want0 = expect(desc, desc["nodes"], desc["edges"], disp)
        if v0 != want0:
            acc.violations.append(Violation("%s/build/content" % desc["kind"], "construction (detour=%s) does not give the content: got %r want %r" % (detour, v0, want0),
                                            dict(base, detour=detour, sel=None), size=len(desc["edges"])))
            continue
        hm0 = q(lambda: cmd(h.get_hypergraph_metadata()))
        full0 = spec.observe(h) if spec and not detour else None
        for name, cls, call, nodes, edges in selections(desc, tier):
            acc.evaluations += 1
            try:
                r = call(h)
                got = hview(r, disp)
            except Exception as e:
                got = ("EXC", type(e).__name__, str(e)[:80])
            if isinstance(nodes, tuple) and len(nodes) == 2 and nodes[0] == "ANYOF":
                wants = [expect(desc, sorted(c, key=repr), [e for e in desc["edges"] if enodes(desc, e) <= c], disp) for c in nodes[1]]
            else:
                wants = [expect(desc, nodes, edges, disp)]
            if got not in wants:
                want = wants[0]
                part = "exception" if got and got[0] in ("EXC", "ERR") else ("weightedness" if got[0] != want[0] else ("nodes" if got[1] != want[1] else "edges"))
                acc.violations.append(Violation(
                    "%s/%s/%s" % (desc["kind"], cls, part),
                    "%s on %s (detour=%s): got %r, want %r" % (name, C.show(desc), detour, got, want),
                    dict(base, detour=detour, sel=name), size=len(desc["edges"]) + len(desc["nodes"])))
            else:
                acc.outcomes.add(hash(got))
                if got[2]:
                    acc.nontrivial.add(hash((name, got)))
            if hview(h, disp) != v0 or q(lambda: cmd(h.get_hypergraph_metadata())) != hm0:
                acc.violations.append(Violation(
                    "%s/%s/source-changed" % (desc["kind"], cls), "%s changed its source %s" % (name, C.show(desc)),
                    dict(base, detour=detour, sel=name), size=len(desc["edges"]) + len(desc["nodes"])))
                h = C.build(desc, detour=detour)
        if full0 is not None and spec.observe(h) != full0:
            acc.violations.append(Violation("%s/any-extraction/source-changed-full-observation" % desc["kind"],
                                            "full observation of the source changed after the extractions: %s" % (C.show(desc),),
                                            dict(base, detour=detour, sel="ALL"), size=len(desc["edges"])))
        # the same object after an in-place change: every extraction has been computed on it once; a hyperedge towards a new node
        # is added and every extraction is computed again (nothing may be remembered across the change)
        if detour is False and desc["nodes"]:
            n0 = desc["nodes"][0]
            xn = "zz8" if isinstance(n0, str) else 10 ** 6 + 1
            ne = tuple(sorted((n0, xn))) if desc["kind"] == "H" else ((n0,), (xn,))
            desc2 = dict(desc, nodes=tuple(desc["nodes"]) + (xn,), edges=tuple(desc["edges"]) + (ne,),
                         weights=(tuple(desc["weights"]) + (5,)) if desc["weighted"] else None)
            g = C.build(desc, detour=False)
            for name, cls, call, nodes, edges in selections(desc, tier):
                try:
                    call(g)
                except Exception:
                    pass
            try:
                g.add_edge(ne, weight=5) if desc["weighted"] else g.add_edge(ne)
            except Exception as e:
                acc.violations.append(Violation("%s/second-call/exception" % desc["kind"], "add_edge raised %s: %s" % (type(e).__name__, e), dict(base, detour=detour, sel="second-call"), size=len(desc["edges"])))
                g = None
            for name, cls, call, nodes, edges in (selections(desc2, tier) if g is not None else ()):
                acc.evaluations += 1
                try:
                    got = hview(call(g), disp)
                except Exception as e:
                    got = ("EXC", type(e).__name__, str(e)[:80])
                if isinstance(nodes, tuple) and len(nodes) == 2 and nodes[0] == "ANYOF":
                    wants = [expect(desc2, sorted(c, key=repr), [e for e in desc2["edges"] if enodes(desc2, e) <= c], disp) for c in nodes[1]]
                else:
                    wants = [expect(desc2, nodes, edges, disp)]
                if got not in wants:
                    acc.violations.append(Violation(
                        "%s/%s/second-call" % (desc["kind"], cls),
                        "%s after add_edge(%r) on the same object, %s: got %r, want %r" % (name, ne, C.show(desc), got, wants[0]),
                        dict(base, detour=detour, sel="second-call:" + name), size=len(desc["edges"]) + len(desc["nodes"])))
        # extraction from an object whose hypergraph-level metadata dict was REPLACED by the user (no reserved keys in it)
        for cls2 in ("get_edges-subhypergraph",):
            g = C.build(desc, detour=detour)
            g.set_hypergraph_metadata({"owner": "me"})
            acc.evaluations += 1
            try:
                g.get_edges(subhypergraph=True)
                g.get_edges(subhypergraph=True, keep_isolated_nodes=True)
                if desc["kind"] == "H":
                    g.subhypergraph(list(desc["nodes"]))
                    g.subhypergraph_by_orders(orders=[1])
            except Exception:
                pass
            if q(lambda: g.get_hypergraph_metadata()) != {"owner": "me"}:
                acc.violations.append(Violation("%s/%s/source-hypergraph-metadata-changed" % (desc["kind"], cls2),
                                                "an extraction rewrote the source's hypergraph metadata: %r (was {'owner': 'me'}); %s" % (q(lambda: g.get_hypergraph_metadata()), C.show(desc)),
                                                dict(base, detour=detour, sel="replaced-hypergraph-metadata"), size=len(desc["edges"])))
        # copy
        full_spec = spec if spec is not None else DirectedSpec(tuple(desc["nodes"]) or (1,), "absent-node", [tuple(e) for e in desc["edges"]])
        acc.evaluations += 1
        c = h.copy()
        if hview(c, disp) != v0 or q(lambda: cmd(c.get_hypergraph_metadata())) != hm0 or type(c) is not type(h):
            acc.violations.append(Violation("%s/copy/not-equal" % desc["kind"], "copy() differs from the original: %r vs %r" % (hview(c, disp), v0),
                                            dict(base, detour=detour, sel="copy"), size=len(desc["edges"])))
        for oname, op in mutation_ops(desc):
            for side in ("copy", "original"):
                acc.evaluations += 1
                a = C.build(desc, detour=detour)
                b = a.copy()
                tgt, other = (b, a) if side == "copy" else (a, b)
                full_before = full_spec.observe(other)  # the whole query surface, incidences and degrees included
                try:
                    op(tgt)
                except Exception as e:
                    acc.count("copy-mutation-rejected")
                    continue
                if hview(other, disp) != v0 or q(lambda: cmd(other.get_hypergraph_metadata())) != hm0 or full_spec.observe(other) != full_before:
                    acc.violations.append(Violation(
                        "%s/copy/aliasing/%s-on-%s" % (desc["kind"], oname, side),
                        "%s applied to the %s changed the other object (%s)" % (oname, side, C.show(desc)),
                        dict(base, detour=detour, sel="copy:%s:%s" % (oname, side)), size=len(desc["edges"])))
                elif hview(tgt, disp) != v0 or q(lambda: cmd(tgt.get_hypergraph_metadata())) != hm0:
                    acc.nontrivial.add(hash(("copy", oname, side, v0)))


def overlapping_directed():
    """directed hyperedges with a node on BOTH sides (accepted by the container; its size is |source| + |target| throughout the
    public API: get_sizes, max_size, the order/size filters)"""
    cands = [((2, 5), (5, 7)), ((2,), (2, 5)), ((7,), (7,)), ((2, 5), (7,)), ((5, 7), (2, 5, 7))]
    for es in C.edge_sets(cands, 2, 1):
        nodes = tuple(sorted({n for s, t in es for n in s + t})) + (11,)
        for w in (False, True):
            yield {"kind": "D", "nodes": nodes, "edges": tuple(es), "weighted": w, "weights": C.inj_weights(len(es)) if w else None,
                   "nmd": C.node_md_rule(nodes, 0), "emd": C.edge_md_rule(es, 0), "hmd": {}}


def corpus(tier):
    U = (2, 5, 7)
    yield from overlapping_directed()
    if tier == "quick":
        yield from C.hypergraph_contents(U, isolated=(11,), lo=1, hi=3, max_edges=3)
        yield from C.hypergraph_contents(("a", "b", "c"), isolated=("d",), lo=1, hi=3, max_edges=2, md_styles=(1,))
        yield from C.directed_contents(U, isolated=(11,), max_edges=2)
    else:
        yield from C.hypergraph_contents((2, 5, 7, 11), isolated=(13,), lo=1, hi=4, max_edges=4)
        yield from C.hypergraph_contents(("a", "b", "c"), isolated=("d",), lo=1, hi=3, max_edges=3, md_styles=(1,))
        yield from C.directed_contents(U, isolated=(11,), max_edges=3)


def run(ctx):
    items = list(corpus(ctx.tier))
    ev, nt, oc = run_e4(ctx, items, lambda part, acc: [check_one(d, ctx.tier, acc) for d in part])
    ctx.require(ev > 10000, "too few evaluations")
    for i in range(0, len(items), max(1, len(items) // 5)):
        ctx.sample(C.show(items[(i + ctx.seed) % len(items)]))
    cov = {
        "evaluations": ev, "distinct_nontrivial": len(nt), "exhaustive": True, "inputs": len(items), "distinct_outcomes": len(oc),
        "rule": "every Hypergraph over {2,5,7}+isolated 11 (quick: <=3 hyperedges of size 1-3; thorough: 4 nodes, <=4 hyperedges of size 1-4), weighted "
                "(injective weights) and not, with and without metadata, built directly and by a detour history; x every node subset, every orders/sizes "
                "list of length <=2 x keep_nodes, every (order|size, up_to, keep_isolated_nodes), largest component with/without filter, copy + every "
                "mutation on either side; DirectedHypergraph: get_edges(subhypergraph=True) and copy. Non-trivial = extraction with >=1 hyperedge "
                "(distinct by selection and result) or an effective mutation of a copy/original.",
    }
    return ctx.finish(cov, assumptions=["expected results computed by definition from the content descriptor (hgxmc/checks/c05.py)"])


def replay(witness, key=None):
    from ..e4 import Acc

    desc = C.from_show(witness["desc"])
    acc = Acc()
    check_one(desc, "thorough", acc)
    hit = [v for v in acc.violations if key is None or (PROP + "/" + v.key) == key or v.key == key]
    for v in hit[:3]:
        print("   " + v.msg[:600])
    return bool(hit)
