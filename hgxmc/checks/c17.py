"""C17 - Hypergraph-MT / spectral clustering: valid reproducible output, EM ascends.

E4 over small hypergraphs x configurations; E3 scripts the RandomState of Hypergraph-MT: the node-update
permutation drawn at every EM iteration is a genuine schedule (all N! orders, or deviation-bounded), the
initial matrices range over a menu.
"""
import itertools
import math

import numpy as np

from .. import choice as CH
from ..core import Violation
from ..e4 import run_e4

LEVEL = "exploration"
PROP = "C17"

LABELS = (2, 5, 7, 11, 13)


class FakeRandomState(CH.Fake):
    def __init__(self, ch, seed, full_perm):
        self.ch, self.seed, self.full_perm = ch, seed, full_perm

    def random_sample(self, size=None):
        if size is None:
            return float((0.35, 0.8, 0.55)[self.ch.choose(3, "rs.random_sample", 0 if self.full_perm else 1)])
        shape = (size,) if isinstance(size, (int, np.integer)) else tuple(size)
        n = int(np.prod(shape))
        pats = [
            np.array([0.3 + 0.4 * ((i * 7 + 3) % 5) / 5 for i in range(n)]),
            np.array([0.9 - 0.6 * ((i * 3 + 1) % 4) / 4 for i in range(n)]),
            np.array([0.5 + 0.45 * (-1) ** i for i in range(n)]),
        ]
        return pats[self.ch.choose(3, "rs.random_sample", 0 if self.full_perm else 1)].reshape(shape)

    def permutation(self, x):
        base = list(x)
        n = len(base)
        perms = list(itertools.permutations(range(n)))
        p = perms[self.ch.choose(len(perms), "rs.permutation", 0 if self.full_perm else 1)]
        return np.array([base[i] for i in p])

    def shuffle(self, x):
        p = self.permutation(range(len(x)))
        vals = [x[int(i)] for i in p]
        for i, v in enumerate(vals):
            x[i] = v

    def rand(self, *shape):
        return self.random_sample(shape if shape else None)

    def random(self, size=None):
        return self.random_sample(size)

    def randint(self, low, high=None, size=None):
        return int(low) + self.ch.choose(2, "rs.randint", 0 if self.full_perm else 1)


class RSFactory(CH.Fake):
    def __init__(self, ch, full_perm):
        self.ch, self.full_perm = ch, full_perm
        self.seeds = []

    def RandomState(self, seed=None):
        self.seeds.append(seed)
        return FakeRandomState(self.ch, seed, self.full_perm)


def mk(n_nodes, edges, weights=None, isolated=()):
    from hypergraphx import Hypergraph

    h = Hypergraph(weighted=weights is not None)
    for e_i, e in enumerate(edges):
        h.add_edge(e, weight=weights[e_i]) if weights else h.add_edge(e)
    for n in isolated:
        h.add_node(n)
    return h


def esp(vals, d):
    return sum(math.prod(c) for c in itertools.combinations(vals, d))


def loglik_def(h, u, w, nodes_sorted):
    idx = {n: i for i, n in enumerate(nodes_sorted)}
    K = u.shape[1]
    L = 0.0
    for e in h.get_edges():
        wt = h.get_weight(e)
        s = sum(w[len(e) - 2, k] * math.prod(u[idx[v], k] for v in e) for k in range(K))
        if s <= 0:
            return -math.inf
        L += wt * math.log(s)
    D = w.shape[0] + 1
    for d in range(2, D + 1):
        for k in range(K):
            L -= w[d - 2, k] * esp(list(u[:, k]), d)
    return L


def check_mt(item, acc):
    import hypergraphx.communities.hypergraph_mt.model as MT

    edges, weights, isolated, K, normU, n_real, max_iter, minpar, full_perm, D_dev = item
    wit = {"what": "mt", "edges": [list(e) for e in edges], "weights": list(weights) if weights else None, "isolated": list(isolated), "K": K, "normalizeU": normU,
           "n_realizations": n_real, "max_iter": max_iter, "min_value_par": minpar, "full_perm": full_perm, "D": D_dev}
    size = len(edges) + max_iter
    h = mk(None, edges, weights, isolated)
    nodes = sorted(h.get_nodes())
    iso_rows = [i for i, n in enumerate(nodes) if n in isolated]
    Dmax = max(len(e) for e in edges)
    outs = set()

    orig_enforce = MT.HypergraphMT.__dict__["enforce_constraint_u"]

    def run(ch):
        fac = RSFactory(ch, full_perm)
        fac.bad_roots = 0

        def spy(num, den):
            # observe (not alter) the Lagrange-multiplier search: did it return a multiplier giving non-negative memberships summing to one?
            lam = orig_enforce.__func__(num, den)
            with np.errstate(all="ignore"):
                cand = num / (lam + den)
            if not (np.all(np.isfinite(cand)) and np.all(cand >= 0) and abs(np.sum(cand) - 1) < 1e-9):
                fac.bad_roots += 1
            return lam

        MT.HypergraphMT.enforce_constraint_u = staticmethod(spy)
        try:
            with CH.patched(MT, np=CH.NumpyShim(np, fac)):
                m = MT.HypergraphMT(n_realizations=n_real, max_iter=max_iter, min_value_par=minpar, verbose=False, check_convergence_every=1)
                u, w, L = m.fit(h, K=K, seed=3, normalizeU=normU, baseline_r0=False)
        finally:
            MT.HypergraphMT.enforce_constraint_u = orig_enforce
        return m, u, w, L, fac

    try:
        for script, res, ch, pruned in acc.explore(run, label=item, max_dev=None if full_perm else D_dev):
            acc.evaluations += 1
            m, u, w, L, fac = res
            ws = dict(wit, script=list(script))

            def bad(what, msg):
                acc.violations.append(Violation("mt/%s" % what, "%s; %r" % (msg, ws), ws, size))

            u, w = np.asarray(u, dtype=float), np.asarray(w, dtype=float)
            if u.shape != (len(nodes), K) or not np.isfinite(u).all() or (u < 0).any():
                bad("u-shape", "u=%r" % (u.tolist(),))
                continue
            if w.shape != (Dmax - 1, K) or not np.isfinite(w).all() or (w < 0).any():
                bad("w-shape", "w=%r" % (w.tolist(),))
                continue
            zero_rows = [i for i in range(len(nodes)) if not u[i].any()]
            if sorted(zero_rows) != sorted(iso_rows) and minpar == 0:
                bad("zero-rows", "zero rows %r but isolated nodes are rows %r; u=%r" % (zero_rows, iso_rows, u.tolist()))
            if any(u[i].any() for i in iso_rows):
                bad("isolated-row-nonzero", "isolated node has memberships: u=%r" % (u.tolist(),))
            if normU:
                # memberships below min_value_par are truncated to 0 after the normalising step: a row may miss up to K*min_value_par
                tol = K * minpar + 1e-9
                off = [i for i in range(len(nodes)) if u[i].any() and abs(u[i].sum() - 1) > tol]
                if off:
                    # attributed to the known finding only when the multiplier search itself was observed to fail in this execution
                    kind = "lagrange-root-search" if fac.bad_roots else "other"
                    bad("rows-not-normalised/" + kind, "normalizeU=True but rows sum to %r; u=%r" % ([float(u[i].sum()) for i in range(len(nodes))], u.tolist()))
            ti = m.train_info
            finals = [float(ti[ti.realization == r].sort_values("iter").loglik.iloc[-1]) for r in sorted(set(ti.realization))]
            if len(finals) != n_real or abs(L - max(finals)) > 1e-12 * (1 + abs(L)):
                bad("maxL-bookkeeping", "returned maxL %r, final values per realisation %r" % (L, finals))
            if not normU:
                for r in sorted(set(ti.realization)):
                    ll = ti[ti.realization == r].sort_values("iter").loglik.tolist()
                    if any(b < a - 1e-9 * (1 + abs(a)) for a, b in zip(ll, ll[1:])):
                        bad("loglik-decrease", "realisation %d: log-likelihood sequence %r decreases" % (r, ll))
                        break
            if minpar == 0:
                Ld = loglik_def(h, u, w, nodes)
                if not (math.isfinite(Ld) and abs(Ld - L) <= 1e-6 * (1 + abs(L))):
                    bad("loglik-vs-definition", "returned maxL %r, log-likelihood from its definition at (u_f, w_f) %r" % (L, Ld))
            if any(s is None for s in fac.seeds):
                bad("unseeded-randomstate", "a RandomState was created without a seed: %r" % (fac.seeds,))
            outs.add((tuple(np.round(u, 6).reshape(-1)), round(L, 6)))
    except CH.UnownedRandomness:
        raise
    except Exception as e:
        acc.violations.append(Violation("mt/exception", "raised %s: %s; %r" % (type(e).__name__, e, wit), wit, size))
        return
    if len(outs) >= 2:
        acc.nontrivial.add(hash(("mt", edges, weights, isolated, K, normU, n_real, max_iter, minpar)))
    acc.outcomes.add(hash((edges, weights, K, normU, n_real, max_iter, minpar, len(outs))))


def real_fit(h, K, seed, **kw):
    import hypergraphx.communities.hypergraph_mt.model as MT

    m = MT.HypergraphMT(n_realizations=kw.pop("n_real", 2), max_iter=kw.pop("max_iter", 3), verbose=False)
    u, w, L = m.fit(h, K=K, seed=seed, **kw)
    return m, np.asarray(u), np.asarray(w), float(L)


def check_real(item, acc):
    """real generators: determinism, stale state across two fits, spectral clustering, baseline_r0=True"""
    import hypergraphx.communities.hy_sc.model as SC
    import hypergraphx.communities.hypergraph_mt.model as MT

    edges, weights, isolated, K, seed = item
    wit = {"what": "real", "edges": [list(e) for e in edges], "weights": list(weights) if weights else None, "isolated": list(isolated), "K": K, "seed": seed}
    size = len(edges)
    h = mk(None, edges, weights, isolated)
    nodes = sorted(h.get_nodes())
    iso_rows = [i for i, n in enumerate(nodes) if n in isolated]

    def bad(what, msg):
        acc.violations.append(Violation("real/%s" % what, "%s; %r" % (msg, wit), wit, size))

    try:
        # HySC
        acc.evaluations += 1
        if K <= len(nodes) - len(iso_rows):
            a = np.asarray(SC.HySC(seed=seed, n_realizations=2).fit(h, K=K))
            b = np.asarray(SC.HySC(seed=seed, n_realizations=2).fit(h, K=K))
            if a.shape != (len(nodes), K) or not set(np.unique(a)) <= {0.0, 1.0} or any(a[i].sum() != (0 if i in iso_rows else 1) for i in range(len(nodes))):
                bad("hysc-not-one-hot", "HySC.fit returned %r (isolated rows %r)" % (a.tolist(), iso_rows))
            if not np.array_equal(a, b):
                bad("hysc-not-reproducible", "two runs with seed %r differ: %r vs %r" % (seed, a.tolist(), b.tolist()))
        # Hypergraph-MT determinism (both initialisations)
        for base in (False, True):
            if base and K > len(nodes) - len(iso_rows):
                continue
            acc.evaluations += 1
            m1, u1, w1, L1 = real_fit(h, K, seed, baseline_r0=base)
            np.random.seed(seed + 17)
            m2, u2, w2, L2 = real_fit(h, K, seed, baseline_r0=base)
            if not (np.array_equal(u1, u2) and np.array_equal(w1, w2) and L1 == L2):
                bad("mt-not-reproducible", "baseline_r0=%s: two runs with seed %r differ (maxL %r vs %r)" % (base, seed, L1, L2))
            if any(u1[i].any() for i in iso_rows) or u1.shape != (len(nodes), K) or (u1 < 0).any() or not np.isfinite(u1).all():
                bad("mt-u-shape", "baseline_r0=%s: u=%r" % (base, u1.tolist()))
            ti = m1.train_info
            finals = [float(ti[ti.realization == r].sort_values("iter").loglik.iloc[-1]) for r in sorted(set(ti.realization))]
            if abs(L1 - max(finals)) > 1e-12 * (1 + abs(L1)):
                bad("maxL-bookkeeping", "baseline_r0=%s: returned maxL %r, final values %r" % (base, L1, finals))
            # longer runs with the real generator: the recorded log-likelihood must not decrease (normalizeU=False)
            acc.evaluations += 1
            m3, u3, w3, L3 = real_fit(h, K, seed, baseline_r0=base, n_real=2, max_iter=8)
            ti = m3.train_info
            for r in sorted(set(ti.realization)):
                ll = ti[ti.realization == r].sort_values("iter").loglik.tolist()
                if any(b < a - 1e-9 * (1 + abs(a)) for a, b in zip(ll, ll[1:])):
                    bad("loglik-decrease", "baseline_r0=%s realisation %d: log-likelihood sequence %r decreases" % (base, r, ll))
                    break
        # histories of two fits on one object: the second result must equal a fresh object's
        other = mk(None, [(2, 5), (5, 7)] if edges != ((2, 5), (5, 7)) else [(2, 5, 7), (7, 11)], None, ())
        for first, second in ((other, h), (h, other)):
            acc.evaluations += 1
            m = MT.HypergraphMT(n_realizations=1, max_iter=3, verbose=False)
            m.fit(first, K=K, seed=seed, baseline_r0=False)
            u2, w2, L2 = m.fit(second, K=K, seed=seed, baseline_r0=False)
            f = MT.HypergraphMT(n_realizations=1, max_iter=3, verbose=False)
            uf, wf, Lf = f.fit(second, K=K, seed=seed, baseline_r0=False)
            if not (np.shape(u2) == np.shape(uf) and np.allclose(u2, uf) and np.allclose(w2, wf) and abs(L2 - Lf) < 1e-12):
                bad("second-fit-stale", "second fit on the same object returned maxL %r (u shape %r), a fresh object returns %r (u shape %r)" % (L2, np.shape(u2), Lf, np.shape(uf)))
        # fit, change the SAME hypergraph object in place, fit again: must equal a fresh model on the changed hypergraph
        acc.evaluations += 1
        g = mk(None, edges, weights, isolated)
        m = MT.HypergraphMT(n_realizations=1, max_iter=3, verbose=False)
        m.fit(g, K=K, seed=seed, baseline_r0=False)
        extra = (2, 11) if (2, 11) not in [tuple(sorted(e)) for e in edges] else (5, 11)
        g.add_edge(extra, weight=2) if weights else g.add_edge(extra)
        u2, w2, L2 = m.fit(g, K=K, seed=seed, baseline_r0=False)
        f = MT.HypergraphMT(n_realizations=1, max_iter=3, verbose=False)
        uf, wf, Lf = f.fit(g, K=K, seed=seed, baseline_r0=False)
        if not (np.shape(u2) == np.shape(uf) and np.allclose(u2, uf) and np.shape(w2) == np.shape(wf) and np.allclose(w2, wf) and abs(L2 - Lf) < 1e-12):
            bad("second-fit-stale", "fit, add_edge(%r) on the same hypergraph object, fit again: maxL %r, a fresh model gives %r" % (extra, L2, Lf))
        acc.nontrivial.add(hash(("real", edges, weights, isolated, K, seed)))
    except Exception as e:
        bad("exception", "raised %s: %s" % (type(e).__name__, e))


def hypergraphs(tier):
    L4 = LABELS[:4]
    cands = [c for r in (2, 3) for c in itertools.combinations(L4, r)]
    two = list(itertools.combinations(cands, 2))
    three = list(itertools.combinations(cands, 3))
    sel = two[:: (16 if tier == "quick" else 6)] + three[:: (90 if tier == "quick" else 30)]
    out = []
    for es in sel:
        used = {v for e in es for v in e}
        iso = tuple(n for n in L4 if n not in used)
        out.append((es, None, iso))
    out.append((((2, 5), (5, 7, 11)), (2, 1), (13,)))
    out.append((((2, 5), (7, 11)), None, ()))
    # hypergraphs in which some size between 2 and the maximum does not occur
    out.append((((2, 5, 7), (5, 7, 11)), None, ()))
    out.append((((2, 5), (5, 7), (2, 5, 7, 11)), None, ()))
    # weighted inputs with weights far from 1 (responsibilities must not depend on the weights)
    out.append((((2, 5), (5, 7), (2, 7, 11)), (4, 1, 3), ()))
    out.append((((2, 5, 7), (7, 11), (2, 11)), (1, 4, 2), ()))
    out.append((((2, 5), (5, 7), (7, 11), (2, 11)), (3, 1, 4, 2), ()))
    if tier != "quick":
        out.append((((2, 5), (5, 7), (7, 11), (11, 13), (2, 13)), None, ()))
        out.append((((2, 5, 7, 11), (2, 5), (7, 11, 13)), (1, 3, 2), ()))
    return out


def items(tier):
    for es, wts, iso in hypergraphs(tier):
        n = len({v for e in es for v in e}) + len(iso)
        for normU in (False, True):
            for minpar in (1e-5, 0):
                if n <= 4:
                    yield ("mt", (es, wts, iso, 2, normU, 1, 1, minpar, True, 0))  # every update order, 1 EM iteration
                    if tier != "quick" or (normU is False and minpar == 0):
                        # thorough: every pair of update orders (24 x 24) for the unconstrained, untruncated configuration
                        yield ("mt", (es, wts, iso, 2, normU, 1, 2, minpar, n <= 3 or (tier != "quick" and normU is False and minpar == 0), 1))
                yield ("mt", (es, wts, iso, 2, normU, 2, 3, minpar, False, 1))  # <= D deviations (non-identity update orders, menu entries) among all iterations
                if tier != "quick" and es in [h[0] for h in hypergraphs(tier)[:2]] and not normU:
                    yield ("mt", (es, wts, iso, 2, normU, 1, 2, minpar, False, 2))
        for seed in (0, 1, 2):
            yield ("real", (es, wts, iso, 2, seed))
        if tier != "quick":
            yield ("real", (es, wts, iso, 3, 1))


def worker(part, acc):
    for kind, item in part:
        {"mt": check_mt, "real": check_real}[kind](item, acc)


def run(ctx):
    from ..seams import validate as _validate_seams

    seam_report = _validate_seams(PROP)  # real random sources under a recorder: every API reached must be modelled (else exit 2)
    its = list(items(ctx.tier))
    k = ctx.jobs * 8
    shards = [its[i::k] for i in range(k)]
    ev, nt, oc = run_e4(ctx, [it for s in shards for it in s], worker, nchunks=k, budget=4000000 if ctx.tier == "quick" else 80000000, config_cap=12000 if ctx.tier == "quick" else 40000)
    ctx.part("inputs", executions=ev, scripted_configurations=sum(1 for kd, _ in its if kd == "mt"), real_generator_inputs=sum(1 for kd, _ in its if kd == "real"))
    ctx.require(len(its) > 50, "corpus too small")
    it = [x for x in its if x[0] == "mt"][(ctx.seed * 7 + 3) % sum(1 for kd, _ in its if kd == "mt")][1]
    ctx.sample({"edges": [list(e) for e in it[0]], "weights": it[1], "isolated": list(it[2]), "K": it[3], "normalizeU": it[4], "n_realizations": it[5], "max_iter": it[6],
                "min_value_par": it[7], "all_update_orders": it[8], "max_non_identity_orders": it[9]})
    cov = {
        "seam_validation": seam_report,
        "evaluations": ev, "distinct_nontrivial": len(nt), "exhaustive": not (ctx.counts.get("configurations-capped-by-budget", 0) or ctx.counts.get("configurations-skipped-budget-exhausted", 0)),
        "configurations_capped_or_skipped_by_execution_budget": ctx.counts.get("configurations-capped-by-budget", 0) + ctx.counts.get("configurations-skipped-budget-exhausted", 0), "distinct_outcomes": len(oc), "configurations": len(its),
        "rule": "hypergraphs with 2-3 hyperedges of size 2-3 over the labels {2,5,7,11} (+ isolated nodes, a weighted one, one with node 13 isolated); K=2; "
                "normalizeU F/T; min_value_par in {1e-5, 0}; scripted RandomState: initial matrices from a 3-pattern menu (every combination when all orders are enumerated, otherwise counted as deviations), the node-update "
                "permutation of each EM iteration over ALL N! orders (N<=4, max_iter 1; N<=3 for max_iter 2) or with <= 1 (quick) / 2 non-identity orders among all "
                "iterations of 2 realisations x 3 iterations; next-seed draw in {1,2}. Real generators: seeds {0,1,2} run twice (same and perturbed global state), "
                "HySC one-hot/determinism, baseline_r0=True, and every order of two fits on one object against a fresh object. Non-trivial = configuration with "
                ">= 2 distinct results.",
    }
    return ctx.finish(cov, assumptions=["sklearn KMeans(random_state=int) and numpy.linalg are deterministic", "RandomState reached only through the module-level name np (seam)",
                                        "initial matrices range over a 3-pattern menu (alphabet limit)"])


def replay(witness, key=None):
    from ..e4 import Acc

    acc = Acc()
    es = tuple(tuple(e) for e in witness["edges"])
    wts = tuple(witness["weights"]) if witness["weights"] else None
    iso = tuple(witness["isolated"])
    if witness["what"] == "mt":
        check_mt((es, wts, iso, witness["K"], witness["normalizeU"], witness["n_realizations"], witness["max_iter"], witness["min_value_par"], witness["full_perm"], witness["D"]), acc)
    else:
        check_real((es, wts, iso, witness["K"], witness["seed"]), acc)
    hit = [v for v in acc.violations if key is None or v.key == key or PROP + "/" + v.key == key]
    for v in hit[:3]:
        print("   " + v.msg[:700])
    return bool(hit)
