"""C02 - DirectedHypergraph faithfully stores (source set, target set) hyperedges (E2 + E1)."""
from .. import alphabets as A
from ..explore import Profile
from ..specs import DirectedSpec
from . import _containers as CC

LEVEL = "model_checking"
PROP = "C02"

Q6 = [((1,), (2,)), ((2,), (1,)), ((1, 2), (3,)), ((3,), (1, 2)), ((1,), (2, 3)), ((2,), (3,))]


def all_pairs(U):
    import itertools

    out = []
    subs = [c for r in range(1, len(U)) for c in itertools.combinations(U, r)]
    for s in subs:
        for t in subs:
            if not set(s) & set(t):
                out.append((s, t))
    return out


def profiles(tier):
    U = (1, 2, 3)
    kn = "DirectedHypergraph"
    P = []
    recs = [(e, None) for e in Q6]
    spec = DirectedSpec(U, 99, Q6)
    absent_rec = (((1,), (99,)), None)
    st = A.record_structure(kn, U, recs, absent_record=absent_rec)
    st += [("add_edge", (1, 2), None, None, None),  # bare scalars as source/target
           ("remove_edges", ((Q6[0], None), (Q6[1], None))),
           ("remove_edges", ((Q6[0], None), (((1,), (99,)), None))),
           ("remove_edges", ((Q6[5], None), (Q6[2], None), (((2, 1), (3,)), None))),  # same hyperedge in two listings -> rejected, nothing removed
           ("remove_nodes", (1, 2), False), ("remove_nodes", (3, 99), False), ("remove_nodes", (3, 1), True)]
    P.append(("closure", Profile("structure", spec, False, st), {}))
    w4 = [(Q6[0], None), (Q6[1], None), (Q6[4], None), (Q6[2], None)]
    wops = A.record_weights(kn, U, w4[:3], absent_record=(((1,), (99,)), None), batch_pairs=[(w4[0], w4[2])])
    P.append(("closure", Profile("weights", DirectedSpec(U, 99, [r for r, _ in w4]), True, wops, enabled=A.weight_cap(2)), {}))
    U2 = (1, 2)
    m2 = [(((1,), (2,)), None), (((2,), (1,)), None)]
    spec2 = DirectedSpec(U2, 99, [r for r, _ in m2])
    mops = A.record_metadata(kn, U2, m2[:1] if tier == "quick" else m2, add_nodes_md=False)
    mops += [("add_edge", ((1,), (2,)), None, None, None)]
    P.append(("closure", Profile("metadata", spec2, False, mops), {}))
    flip = A.record_weights(kn, U2, m2, batch_pairs=[(m2[0], m2[1])])
    P.append(("closure", Profile("weights-on-unweighted", spec2, False, flip, enabled=A.weight_cap(3)), {}))
    d = 3 if tier == "quick" else 5
    hs = A.record_structure(kn, U, [recs[0], recs[1], recs[4], recs[2]], absent_record=absent_rec, batches=False)
    P.append(("histories", Profile("hist-structure", spec, False, hs), {"depth": d}))
    hw = A.record_weights(kn, U, [w4[0], w4[2]], batch_pairs=[(w4[0], w4[2])])
    P.append(("histories", Profile("hist-weights", spec, True, hw), {"depth": d}))
    # deep churn histories over a tiny alphabet (insert / remove of four records): id reuse and stale tables need 5+ steps
    P.append(("histories", Profile("hist-churn", spec, False, A.churn([(Q6[0], None), (Q6[1], None), (Q6[4], None), (Q6[2], None)])), {"depth": 8 if tier == "quick" else 10}))
    P.append(("histories", Profile("hist-churn-weighted", spec, True, A.churn([(Q6[0], None), (Q6[1], None), (Q6[4], None), (Q6[2], None)])), {"depth": 6 if tier == "quick" else 8}))
    if tier == "thorough":
        full = all_pairs(U)
        specf = DirectedSpec(U, 99, full)
        stf = A.record_structure(kn, U, [(e, None) for e in full], absent_record=absent_rec, batches=False)
        P.append(("closure", Profile("structure-all12", specf, False, stf), {"reps": 1}))
        Us = ("a", "b", "c")
        Qs = [(tuple(Us[i - 1] for i in s), tuple(Us[i - 1] for i in t)) for s, t in Q6]
        specs = DirectedSpec(Us, "zz", Qs)
        sts = A.record_structure(kn, Us, [(e, None) for e in Qs], absent="zz", absent_record=((("a",), ("zz",)), None))
        P.append(("closure", Profile("structure-str", specs, False, sts), {}))
        P.append(("closure", Profile("structure-weighted", spec, True, st, enabled=A.weight_cap(1)), {}))
    return P


def run(ctx):
    return CC.run_container_check(ctx, profiles(ctx.tier))


def replay(witness, key=None):
    return CC.replay(witness, key)
