"""C10 - graph projections encode exactly the incidence structure (E4, exhaustive)."""
import itertools
from fractions import Fraction

from .. import corpus as C
from ..core import Violation
from ..e4 import run_e4

LEVEL = "exploration"
PROP = "C10"

JACCARD_S = [Fraction(1, 4), Fraction(1, 3), Fraction(1, 2), Fraction(2, 3), Fraction(1, 1)]


def check_h(desc, acc, detour):
    import hypergraphx.representations.projections as P
    from hypergraphx.representations.simplicial_complex import simplicial_complex

    h = C.build(desc, detour=detour)
    N = list(desc["nodes"])
    E = [tuple(sorted(e)) for e in desc["edges"]]
    base = dict(desc=C.show(desc), detour=detour)
    size = len(E) + len(N)

    def bad(what, msg):
        acc.violations.append(Violation(what, "%s (detour=%s) on %s" % (msg, detour, C.show(desc)), base, size))

    # ---- bipartite ------------------------------------------------------------------------------------
    acc.evaluations += 1
    try:
        g, ids = P.bipartite_projection(h)
        objs = list(ids.values())
        ok = sorted(map(repr, objs)) == sorted(map(repr, N + E)) and set(g.nodes()) == set(ids.keys())
        if ok:
            got = {frozenset((repr(ids[a]), repr(ids[b]))) for a, b in g.edges()}
            want = {frozenset((repr(n), repr(e))) for e in E for n in e}
            ok = got == want and g.number_of_edges() == len(want)
        if not ok:
            bad("bipartite_projection/structure", "vertices %r edges %r" % (ids, list(g.edges())))
    except Exception as e:
        bad("bipartite_projection/exception", "raised %s: %s" % (type(e).__name__, e))
    # ---- clique -----------------------------------------------------------------------------------------
    pairs = {frozenset(p) for e in E for p in itertools.combinations(e, 2)}
    for keep in (False, True):
        acc.evaluations += 1
        try:
            g = P.clique_projection(h, keep_isolated=keep)
            got = {frozenset(p) for p in g.edges()}
            wn = set(N) if keep else {n for p in pairs for n in p}
            if got != pairs or set(g.nodes()) != wn or any(a == b for a, b in g.edges()):
                bad("clique_projection/structure", "keep_isolated=%s: nodes %r edges %r; definition nodes %r edges %r" % (keep, sorted(g.nodes(), key=repr), sorted(map(sorted, got)), sorted(wn, key=repr), sorted(map(sorted, pairs))))
        except Exception as e:
            bad("clique_projection/exception", "raised %s: %s" % (type(e).__name__, e))
    # ---- line graph ---------------------------------------------------------------------------------------
    attained = {Fraction(len(set(a) & set(b)), len(set(a) | set(b))) for a, b in itertools.combinations(E, 2) if set(a) & set(b)}
    for dist, ss in (("intersection", [1, 2, 3]), ("jaccard", sorted(set(JACCARD_S) | attained))):
        for s in ss:
            for weighted, call in ((False, "function"), (True, "function"), (False, "method"), (True, "method")):
                acc.evaluations += 1
                try:
                    sv = float(s) if dist == "jaccard" else s
                    g, ids = P.line_graph(h, distance=dist, s=sv, weighted=weighted) if call == "function" else h.to_line_graph(distance=dist, s=sv, weighted=weighted)
                    ok = sorted(ids.values()) == sorted(E) and set(g.nodes()) == set(ids.keys())
                    want = {}
                    for a, b in itertools.combinations(E, 2):
                        inter = len(set(a) & set(b))
                        val = inter if dist == "intersection" else Fraction(inter, len(set(a) | set(b)))
                        if val >= s and inter > 0:
                            want[frozenset((a, b))] = val
                    got = {}
                    if ok:
                        for a, b, d in g.edges(data=True):
                            got[frozenset((ids[a], ids[b]))] = d.get("weight")
                        ok = set(got) == set(want) and g.number_of_edges() == len(want)
                        if ok and weighted:
                            ok = all(abs(float(got[k]) - float(want[k])) < 1e-12 for k in want)
                    if not ok:
                        bad("line_graph/%s/%s" % (dist, "weights" if (set(got) == set(want) and weighted) else "structure"),
                            "s=%s weighted=%s (%s): ids %r edges %r; definition %r" % (s, weighted, call, ids, got, want))
                    elif want:
                        acc.nontrivial.add(hash((repr(E), dist, s, weighted)))
                    acc.outcomes.add(hash(repr(sorted(map(sorted, want)))))
                except Exception as e:
                    bad("line_graph/exception", "raised %s: %s" % (type(e).__name__, e))
    # ---- the same object after an in-place change (every projection above has been computed once on it) -----------
    if detour is False and N:
        xn = "zz8" if isinstance(N[0], str) else 10 ** 6 + 1
        new = tuple(sorted((N[0], xn)))
        for sname, act, E2 in (("add_edge", lambda: h.add_edge(new), E + [new]), ("remove_edge", lambda: h.remove_edge(new), E)):
            acc.evaluations += 1
            try:
                act()
                g, ids = P.line_graph(h, distance="intersection", s=1, weighted=False)
                got = {frozenset((ids[a], ids[b])) for a, b in g.edges()}
                want = {frozenset((a, b)) for a, b in itertools.combinations(E2, 2) if set(a) & set(b)}
                if sorted(ids.values(), key=repr) != sorted(E2, key=repr) or got != want:
                    bad("line_graph/second-call", "after %s on the same object: ids %r edges %r; definition %r" % (sname, ids, got, want))
                g2 = P.clique_projection(h, keep_isolated=True)
                wantp = {frozenset(p) for e in E2 for p in itertools.combinations(e, 2)}
                if {frozenset(p) for p in g2.edges()} != wantp:
                    bad("clique_projection/second-call", "after %s on the same object: %r; definition %r" % (sname, list(g2.edges()), wantp))
                g3, ids3 = P.bipartite_projection(h)
                got3 = {frozenset((repr(ids3[a]), repr(ids3[b]))) for a, b in g3.edges()}
                if got3 != {frozenset((repr(n), repr(e))) for e in E2 for n in e}:
                    bad("bipartite_projection/second-call", "after %s on the same object: %r" % (sname, got3))
            except Exception as e:
                bad("second-call/exception", "raised %s: %s" % (type(e).__name__, e))
                break
    # ---- simplicial complex ---------------------------------------------------------------------------------
    acc.evaluations += 1
    try:
        S = simplicial_complex(h)
        got = {tuple(sorted(e)) for e in S.get_edges()}
        want = {tuple(sorted(c)) for e in E for r in range(1, len(e) + 1) for c in itertools.combinations(e, r)}
        ne = {e for e in got if len(e) > 0}
        if ne != want or len(S.get_edges()) != len(got):
            bad("simplicial_complex/closure", "non-empty hyperedges %r, downward closure %r" % (sorted(ne), sorted(want)))
    except Exception as e:
        bad("simplicial_complex/exception", "raised %s: %s" % (type(e).__name__, e))


def check_d(desc, acc, detour):
    import hypergraphx.representations.projections as P

    h = C.build(desc, detour=detour)
    E = [(tuple(sorted(s)), tuple(sorted(t))) for s, t in desc["edges"]]
    base = dict(desc=C.show(desc), detour=detour)
    size = len(E)
    attained = {Fraction(len(set(a[1]) & set(b[0])), len(set(a[1]) | set(b[0]))) for a in E for b in E if a != b and set(a[1]) & set(b[0])}
    for dist, ss in (("intersection", [1, 2]), ("jaccard", sorted(set(JACCARD_S) | attained))):
        for s in ss:
            for weighted in (False, True):
                for call in ("function", "method"):
                    acc.evaluations += 1
                    try:
                        sv = float(s) if dist == "jaccard" else s
                        g, ids = P.directed_line_graph(h, distance=dist, s=sv, weighted=weighted) if call == "function" else h.to_line_graph(distance=dist, s=sv, weighted=weighted)
                        ok = sorted(ids.values()) == sorted(E) and set(g.nodes()) == set(ids.keys()) and g.is_directed()
                        want = {}
                        for a in E:
                            for b in E:
                                if a == b:
                                    continue
                                inter = len(set(a[1]) & set(b[0]))
                                val = inter if dist == "intersection" else Fraction(inter, len(set(a[1]) | set(b[0])))
                                if val >= s:
                                    want[(a, b)] = val
                        got = {}
                        if ok:
                            for a, b, d in g.edges(data=True):
                                got[(ids[a], ids[b])] = d.get("weight")
                            ok = set(got) == set(want) and g.number_of_edges() == len(want)
                            if ok and weighted:
                                ok = all(abs(float(got[k]) - float(want[k])) < 1e-12 for k in want)
                        if not ok:
                            acc.violations.append(Violation("directed_line_graph/%s/structure" % dist, "s=%s weighted=%s: ids %r arcs %r; definition %r on %s" % (s, weighted, ids, got, want, C.show(desc)), base, size))
                        elif want:
                            acc.nontrivial.add(hash((repr(E), dist, s, weighted)))
                    except Exception as e:
                        acc.violations.append(Violation("directed_line_graph/exception", "raised %s: %s on %s" % (type(e).__name__, e, C.show(desc)), base, size))


def check_one(desc, acc):
    for detour in (False, True, 2, "shrink"):
        if desc["kind"] == "H":
            check_h(desc, acc, detour)
        else:
            check_d(desc, acc, detour)


WIDE = [(1, 2, 3, 4), (4, 5, 6), (3, 4, 5), (4, 5), (1, 2, 3, 4, 5), (5, 6, 7), (1, 5), (4, 5, 6, 7), (2, 3, 4, 5, 6), (1, 7)]


def content_h(es):
    nodes = tuple(sorted({n for e in es for n in e}))
    return {"kind": "H", "nodes": nodes, "edges": tuple(es), "weighted": False, "weights": None, "nmd": {}, "emd": {}, "hmd": {}}


def corpus(tier):
    # pairs / triples of wider hyperedges: Jaccard values with denominators 5, 6, 7 are attained (thresholds equal to them are used)
    for r in (2, 3):
        for es in itertools.combinations(WIDE, r):
            yield content_h(es)
    wide_d = [((1, 2), (3, 4, 5)), ((3, 6), (1, 2)), ((5,), (6,)), ((6,), (1, 2, 3, 4, 5)), ((3, 4, 5, 6), (1,)), ((1, 2, 3), (4, 5, 6)), ((4,), (1, 2))]
    for r in (2, 3):
        for es in itertools.combinations(wide_d, r):
            nodes = tuple(sorted({n for s, t in es for n in s + t}))
            yield {"kind": "D", "nodes": nodes, "edges": tuple(es), "weighted": False, "weights": None, "nmd": {}, "emd": {}, "hmd": {}}
    # many more hyperedges than nodes: every family of hyperedges over three nodes, and the densest ones over four
    all3 = [e for r in (1, 2, 3) for e in itertools.combinations((1, 2, 3), r)]
    for r in range(4, 8):
        for es in itertools.combinations(all3, r):
            yield content_h(es)
    all4 = [e for r in (1, 2, 3, 4) for e in itertools.combinations((2, 5, 7, 11), r)]
    for r in ((15, 14) if tier == "quick" else (15, 14, 13)):
        for es in itertools.combinations(all4, r):
            yield content_h(es)
    if tier == "quick":
        yield from C.hypergraph_contents((2, 5, 7, 11), isolated=(13,), lo=1, hi=4, max_edges=3, weighted=(False,), md_styles=(0,))
        yield from C.hypergraph_contents(("a", "b", "c"), isolated=("d",), lo=1, hi=3, max_edges=3, weighted=(True,), md_styles=(0,))
        yield from C.directed_contents((1, 2, 3), max_edges=3, weighted=(False,), md_styles=(0,))
    else:
        yield from C.hypergraph_contents((2, 5, 7, 11), isolated=(13,), lo=1, hi=4, max_edges=5, weighted=(False,), md_styles=(0,))
        yield from C.hypergraph_contents((1, 2, 3, 4, 5), isolated=(), lo=2, hi=5, max_edges=3, weighted=(False,), md_styles=(0,))
        yield from C.hypergraph_contents(("a", "b", "c"), isolated=("d",), lo=1, hi=3, max_edges=4, weighted=(True,), md_styles=(0,))
        yield from C.directed_contents((1, 2, 3), max_edges=12, weighted=(False,), md_styles=(0,))
        yield from C.directed_contents((1, 2, 3, 4), max_edges=2, weighted=(False,), md_styles=(0,))


def run(ctx):
    items = list(corpus(ctx.tier))
    ev, nt, oc = run_e4(ctx, items, lambda part, acc: [check_one(d, acc) for d in part])
    ctx.part("inputs", contents=len(items))
    ctx.require(len(items) > 800, "corpus too small")
    for i in (0, 1, 2, 3):
        ctx.sample(C.show(items[(ctx.seed + 1 + i * (len(items) // 4)) % len(items)]))
    cov = {
        "evaluations": ev, "distinct_nontrivial": len(nt), "exhaustive": True, "inputs": len(items), "distinct_outcomes": len(oc),
        "rule": "every Hypergraph over {2,5,7,11}+isolated 13 with <=3 (quick) / <=5 (thorough) hyperedges of size 1-4 (thorough: also size 2-5 over 5 nodes), "
                "direct and detour builds; bipartite, clique (keep_isolated F/T), line graph x {intersection s=1,2,3; jaccard s in {1/4,1/3,1/2,2/3,1}} x "
                "weighted F/T, simplicial complex; directed line graph on every DirectedHypergraph over 3 nodes with <=3 (quick) / all 2^12 (thorough) "
                "hyperedges. Thresholds are attainable similarity values (a fixed menu plus every value attained inside the content itself; pairs and triples of ten "
                "wider hyperedges over seven nodes give denominators 5-7), so both sides of every >= are hit with equality (exact rational oracle). Every family "
                "of >= 4 of the 7 hyperedges over three nodes and the densest families over four nodes (many more hyperedges than nodes). After the projections "
                "of an object have been computed, a hyperedge is added to / removed from the same object and they are computed again. "
                "Non-trivial = a line graph with >= 1 edge (distinct by edge list, distance, s, weighted).",
    }
    return ctx.finish(cov, assumptions=["jaccard thresholds are passed as the floats nearest to exact rationals p/q (q <= 7), i.e. exactly what one correctly rounded division |A&B| / |A|B| yields: a pair whose similarity equals the threshold must be joined"])


def replay(witness, key=None):
    from ..e4 import Acc

    acc = Acc()
    check_one(C.from_show(witness["desc"]), acc)
    hit = [v for v in acc.violations if key is None or v.key == key or PROP + "/" + v.key == key]
    for v in hit[:3]:
        print("   " + v.msg[:600])
    return bool(hit)
