"""C15 - Hy-MMSBM quantities equal their definitions; EM ascends; fixed inputs stay.

identities: E4 over a value grid (u in {0,1/2,1}^(NxK), symmetric w over {0,1,2}) against brute force over ALL
possible hyperedges; fit: E4 over hypergraphs x configurations with the initial draw scripted (E3 menu).
"""
import itertools
import math

import numpy as np

from .. import choice as CH
from ..core import Violation
from ..e4 import run_e4

LEVEL = "exploration"
PROP = "C15"


def all_hyes(N, D):
    return [c for d in range(2, D + 1) for c in itertools.combinations(range(N), d)]


def incidence(N, hyes):
    B = np.zeros((N, len(hyes)), dtype=int)
    for j, e in enumerate(hyes):
        for i in e:
            B[i, j] = 1
    return B


def lam_def(u, w, e):
    return sum(float(u[i] @ w @ u[j]) for i, j in itertools.combinations(e, 2))


def kappa_def(N, d):
    return math.comb(N - 2, d - 2) * d * (d - 1) / 2


def close(a, b, tol=1e-9):
    a, b = np.asarray(a, dtype=float), np.asarray(b, dtype=float)
    return a.shape == b.shape and bool(np.all(np.abs(a - b) <= tol * (1 + np.abs(a) + np.abs(b))))


def w_grid(K):
    if K == 1:
        return [np.array([[float(a)]]) for a in (0, 1, 2)]
    out = []
    for a, b, c in itertools.product((0, 1, 2), repeat=3):
        out.append(np.array([[a, b], [b, c]], dtype=float))
    return out


def check_identities(item, acc):
    from hypergraphx.communities.hy_mmsbm.model import HyMMSBM

    N, K, D, ulist = item
    hyes = all_hyes(N, D)
    B = incidence(N, hyes)
    kap = {d: kappa_def(N, d) for d in range(2, D + 1)}
    for uflat in ulist:
        u = np.array(uflat, dtype=float).reshape(N, K)
        for w in w_grid(K):
            acc.evaluations += 1
            wit = {"part": "identities", "N": N, "K": K, "D": D, "u": u.tolist(), "w": w.tolist()}

            def bad(what, msg):
                acc.violations.append(Violation("identities/%s" % what, "%s; N=%d K=%d D=%d u=%r w=%r" % (msg, N, K, D, u.tolist(), w.tolist()), wit, N * K))

            try:
                m = HyMMSBM(u=u.copy(), w=w.copy(), max_hye_size=D)
                lam = np.array([lam_def(u, w, e) for e in hyes])
                got = m.poisson_params(B)
                if not close(got, lam):
                    bad("poisson_params", "poisson_params %r, definition %r" % (np.asarray(got).tolist(), lam.tolist()))
                    continue
                # a SQUARE incidence matrix (as many hyperedges as nodes) that is not symmetric: orientation must not be guessed
                if len(hyes) >= N:
                    sel = hyes[:2] + hyes[-(N - 2):] if N > 2 else hyes[:N]
                    Bs = incidence(N, sel)
                    if Bs.shape[0] == Bs.shape[1] and not (Bs == Bs.T).all():
                        got_s = m.poisson_params(Bs)
                        if not close(got_s, [lam_def(u, w, e) for e in sel]):
                            bad("poisson_params-square-incidence", "hyperedges %r (N = E = %d): %r, definition %r" % (sel, N, np.asarray(got_s).tolist(), [lam_def(u, w, e) for e in sel]))
                for d in range(2, D + 1):
                    if not close(m.log_kappa(d), math.log(kap[d])):
                        bad("log_kappa", "log_kappa(%d)=%r, definition %r" % (d, m.log_kappa(d), math.log(kap[d])))
                if not close(m.log_kappa(np.arange(2, D + 1)), [math.log(kap[d]) for d in range(2, D + 1)]):
                    bad("log_kappa", "log_kappa(array) differs from the definition")
                ratio = np.array([lam[j] / kap[len(e)] for j, e in enumerate(hyes)])
                for dims in ("all", np.arange(3, D + 1), np.arange(2, D + 1)):
                    ds = list(range(2, D + 1)) if isinstance(dims, str) else [int(x) for x in dims]
                    if not ds:
                        continue
                    want = np.array([sum(ratio[j] for j, e in enumerate(hyes) if i in e and len(e) in ds) for i in range(N)])
                    got = m.expected_degree(per_node=True, d=dims)
                    if not close(got, want):
                        bad("expected_degree-per-node", "dims %r: %r, definition %r" % (ds, np.asarray(got).tolist(), want.tolist()))
                    got = m.expected_degree(per_node=False, d=dims)
                    if not close(got, want.mean()):
                        bad("expected_degree-average", "dims %r: %r, definition %r" % (ds, got, want.mean()))
                for dy in (True, False):
                    ds = list(range(2 if dy else 3, D + 1))
                    want = {d: sum(ratio[j] for j, e in enumerate(hyes) if len(e) == d) for d in ds}
                    want = {d: v for d, v in want.items() if v > 0}
                    got = m.dimension_sequence(include_dyadic=dy, expected=True)
                    got = {int(k): float(v) for k, v in got.items()}
                    if set(got) != set(want) or not all(close(got[d], want[d]) for d in want):
                        bad("dimension_sequence", "include_dyadic=%s: %r, definition %r" % (dy, got, want))
                    if ds:
                        wantd = np.array([sum(ratio[j] for j, e in enumerate(hyes) if i in e and len(e) in ds) for i in range(N)])
                        gotd = m.degree_sequence(include_dyadic=dy, expected=True)
                        if not close(gotd, wantd):
                            bad("degree_sequence-expected", "include_dyadic=%s: %r, definition %r" % (dy, np.asarray(gotd).tolist(), wantd.tolist()))
                pair = sum(float(u[i] @ w @ u[j]) for i, j in itertools.combinations(range(N), 2))
                if not close(m.C("all") * pair, ratio.sum()):
                    bad("C", "C('all') * sum_{i<j} u_i w u_j = %r but sum_e lambda_e/kappa_e = %r" % (m.C("all") * pair, ratio.sum()))
                for d in range(2, D + 1):
                    if not close(m.C(d), 2 / (d * (d - 1))):
                        bad("C", "C(%d)=%r" % (d, m.C(d)))
                if lam.max() > 0:
                    acc.nontrivial.add(hash((N, K, D, tuple(uflat), w.tobytes())))
                acc.outcomes.add(hash(tuple(np.round(ratio, 9))))
            except Exception as e:
                bad("exception", "raised %s: %s" % (type(e).__name__, e))


# ---- fit --------------------------------------------------------------------------------------------------
W_MENU = {1: [[[1.0]], [[0.3]], [[2.5]]],
          2: [[[1.0, 0.5], [0.5, 1.0]], [[0.2, 1.5], [1.5, 0.7]], [[2.0, 0.1], [0.1, 0.4]], [[0.9, 0.9], [0.9, 0.9]]]}


def u_menu(N, K):
    base = [[0.5 + 0.5 * ((i + k) % 2) for k in range(K)] for i in range(N)]
    alt = [[0.2 + 0.3 * ((2 * i + k) % 3) for k in range(K)] for i in range(N)]
    return [base, alt]


U_SUPPLIED = {1: [[[1.0], [0.5], [1.0], [0.5]], [[0.5], [0.5], [0.5], [1.0]]],
              2: [[[1.0, 0.5], [0.5, 1.0], [1.0, 1.0], [0.5, 0.5]], [[1.0, 0.0], [0.5, 0.5], [0.0, 1.0], [1.0, 1.0]]]}


def exact_loglik(N, D, u, w, obs):
    """sum over ALL possible hyperedges of size 2..D of the Poisson log-pmf with mean lambda_e / kappa_e"""
    if any(len(e) > D for e in obs):
        return -math.inf
    tot = 0.0
    for e in all_hyes(N, D):
        mean = lam_def(u, w, e) / kappa_def(N, len(e))
        a = obs.get(e, 0)
        if a > 0:
            if mean <= 0:
                return -math.inf
            tot += a * math.log(mean) - math.lgamma(a + 1)
        tot -= mean
    return tot


def check_fit(item, acc):
    from hypergraphx import Hypergraph
    from hypergraphx.communities.hy_mmsbm.model import HyMMSBM

    edges, weights, K, give_u, give_w, assort, w_prior, u_prior, mhs, tier = item
    N = 4
    wit = {"part": "fit", "edges": [list(e) for e in edges], "weights": list(weights) if weights else None, "K": K, "give_u": give_u, "give_w": give_w,
           "assortative": assort, "w_prior": w_prior, "u_prior": u_prior, "max_hye_size": mhs}
    size = len(edges)
    h = Hypergraph(weighted=weights is not None)
    h.add_nodes(list(range(N)))
    for i, e in enumerate(edges):
        h.add_edge(e, weight=weights[i]) if weights else h.add_edge(e)
    obs = {tuple(sorted(e)): (weights[i] if weights else 1) for i, e in enumerate(edges)}
    u_opts = U_SUPPLIED[K] if give_u else [None]
    w_opts = [m for m in W_MENU[K]][:2] if give_w else [None]
    if assort and give_w:
        w_opts = [np.diag(np.diag(np.array(m))).tolist() for m in w_opts]
    iters = (1, 2, 3, 4, 5)
    for u0 in u_opts:
        if u0 is not None:
            # data that has probability zero for EVERY admissible affinity (an observed hyperedge whose rate is structurally 0)
            # is outside the quantified domain: there is nothing for the EM to converge to (DESIGN 2.10)
            wprobe = np.eye(K) if assort else np.ones((K, K))
            if any(lam_def(np.array(u0, dtype=float), wprobe, e) <= 0 for e in obs):
                acc.count("fit-skipped-impossible-data")
                continue
        for w0 in w_opts:
            # every initial draw of the menu (one choice point per un-supplied parameter)
            seqs = {}
            for n_iter in iters:
                def run(ch):
                    m = HyMMSBM(K=K, u=None if u0 is None else np.array(u0, dtype=float), w=None if w0 is None else np.array(w0, dtype=float),
                                assortative=assort, max_hye_size=mhs, u_prior=u_prior, w_prior=w_prior, seed=0)
                    def shaped(shape):
                        # initial values of the right SIZE (a (K,K) / (N,K) matrix, or the same numbers requested as a flat vector)
                        shape = tuple(np.atleast_1d(shape).astype(int).tolist()) if not isinstance(shape, tuple) else shape
                        if shape == (K, K) or (len(shape) == 1 and shape[0] == K * K and K != N):
                            return [np.array(x).reshape(shape) for x in W_MENU[K]]
                        if shape == (K,):
                            return [np.diag(np.array(x)) for x in W_MENU[K]]
                        return [np.array(x).reshape(shape) for x in u_menu(N, K)]

                    m._rng = CH.FakeGenerator(ch, np, tag="model", menus={
                        "random": lambda shape: shaped(shape),
                        "exponential": lambda scale, size: shaped(np.shape(scale) if np.shape(scale) else size),
                    })
                    uu, ww = m.u, m.w
                    ucopy = None if uu is None else uu.copy()
                    wcopy = None if ww is None else ww.copy()
                    m.fit(h, n_iter=n_iter)
                    if n_iter == 1 and (u0 is not None or w0 is not None):
                        # a second call on the same object must still treat the supplied parameters as fixed
                        keep_u, keep_w = (None if u0 is None else m.u.copy()), (None if w0 is None else m.w.copy())
                        m2 = m
                        m2.fit(h, n_iter=1)
                        if (keep_u is not None and not np.array_equal(m2.u, keep_u)) or (keep_w is not None and not np.array_equal(m2.w, keep_w)):
                            return m, uu, ww, ucopy, wcopy, "second-fit-changed-supplied"
                    return m, uu, ww, ucopy, wcopy, None

                try:
                    for script, res, ch, pruned in CH.explore(run):
                        acc.evaluations += 1
                        m, uu, ww, ucopy, wcopy, second = res
                        ws = dict(wit, u0=u0, w0=w0, n_iter=n_iter, script=list(script))
                        if second:
                            acc.violations.append(Violation("fit/supplied-parameter-changed-by-second-fit", "a second fit() on the same object changed a parameter supplied at construction; %r" % (ws,), ws, size + 2))
                            continue

                        def bad(what, msg):
                            acc.violations.append(Violation("fit/%s" % what, "%s; %r" % (msg, ws), ws, size + n_iter))

                        if u0 is not None and (not np.array_equal(m.u, ucopy) or not np.array_equal(uu, ucopy)):
                            bad("supplied-u-changed", "the supplied memberships changed during fit")
                        if w0 is not None and (not np.array_equal(m.w, wcopy) or not np.array_equal(ww, wcopy)):
                            bad("supplied-w-changed", "the supplied affinity changed during fit")
                        U, W = np.asarray(m.u, dtype=float), np.asarray(m.w, dtype=float)
                        if not (np.isfinite(U).all() and np.isfinite(W).all()):
                            bad("non-finite", "parameters are not finite: u=%r w=%r" % (U.tolist(), W.tolist()))
                            continue
                        if (U < -1e-12).any() or (W < -1e-12).any():
                            bad("negative", "negative parameter: u=%r w=%r" % (U.tolist(), W.tolist()))
                        if np.abs(W - W.T).max() > 1e-12 * (1 + np.abs(W).max()):
                            bad("w-not-symmetric", "w=%r" % (W.tolist(),))
                        if assort and np.abs(W - np.diag(np.diag(W))).max() > 0:
                            bad("w-not-diagonal", "assortative model with w=%r" % (W.tolist(),))
                        if U.shape != (N, K) or W.shape != (K, K):
                            bad("shape", "u %r w %r" % (U.shape, W.shape))
                        if u0 is not None and w0 is None:
                            Dm = m.max_hye_size
                            L = exact_loglik(N, Dm, U, W, obs)
                            Cc = sum(2 / (d * (d - 1)) for d in range(2, Dm + 1))
                            pen = L - float(np.sum(np.asarray(w_prior) * W * Cc)) if math.isfinite(L) else L
                            seqs.setdefault(tuple(script), []).append((n_iter, L, pen))
                except CH.UnownedRandomness:
                    raise
                except Exception as e:
                    acc.violations.append(Violation("fit/exception", "raised %s: %s; %r" % (type(e).__name__, e, dict(wit, u0=u0, w0=w0, n_iter=n_iter)), dict(wit, u0=u0, w0=w0, n_iter=n_iter), size))
            for script, seq in seqs.items():
                seq.sort()
                Ls = [x[1] for x in seq]
                if not all(math.isfinite(x) for x in Ls):
                    acc.count("fit-ascent-vacuous(max_hye_size below the data or zero rate)")
                    continue
                acc.count("fit-ascent-sequences")
                acc.nontrivial.add(hash((edges, weights, K, assort, w_prior, tuple(map(tuple, u0)), script)))
                for (n1, l1, p1), (n2, l2, p2) in zip(seq, seq[1:]):
                    if l2 < l1 - 1e-9 * (1 + abs(l1)):
                        ws = dict(wit, u0=u0, w0=None, script=list(script), n_iter=[n1, n2])
                        if w_prior > 0 and p2 >= p1 - 1e-9 * (1 + abs(p1)):
                            key = "fit-ascent/w_prior>0/exact-loglik/decrease"
                        elif w_prior > 0:
                            key = "fit-ascent/w_prior>0/penalised-objective/decrease"
                        else:
                            key = "fit-ascent/w_prior=0/exact-loglik/decrease"
                        acc.violations.append(Violation(key, "exact log-likelihood %.12g at n_iter=%d > %.12g at n_iter=%d (penalised %.12g -> %.12g); %r" % (l1, n1, l2, n2, p1, p2, ws), ws, size + n2))
                        break


def fit_items(tier):
    nodes = range(4)
    cands = [c for r in (2, 3) for c in itertools.combinations(nodes, r)]
    hs = [es for r in (2, 3) for es in itertools.combinations(cands, r)]
    hs = hs[:: (7 if tier == "quick" else 2)]
    # as many hyperedges as nodes (square incidence matrix)
    hs += [((0, 1), (0, 2), (0, 1, 2), (1, 2, 3)), ((0, 1), (1, 2), (2, 3), (0, 1, 3))]
    for es in hs:
        for weights in (None, tuple(1 + (i % 3) for i in range(len(es)))):
            for K in (1, 2):
                for give_u, give_w in ((True, False), (False, True), (True, True), (False, False)):
                    for assort in (True, False):
                        if K == 1 and not assort:
                            continue
                        for w_prior in (0.0, 1.0):
                            for u_prior in (0.0, 1.0):
                                if not give_u and u_prior == 1.0 and tier == "quick":
                                    continue
                                if give_u and u_prior == 1.0:
                                    continue  # u is fixed: its prior plays no role
                                for mhs in (None, 4):
                                    if mhs is None and give_u and not give_w and tier == "quick":
                                        continue  # ascent needs the true maximum size; None is covered by the shape checks below
                                    yield ("fit", (es, weights, K, give_u, give_w, assort, w_prior, u_prior, mhs, tier))


def identity_items(tier):
    for N in (3, 4):
        for K in (1, 2):
            grid = (0.0, 0.5, 1.0)
            if N * K <= 6:
                us = list(itertools.product(grid, repeat=N * K))
            elif tier == "quick":
                us = list(itertools.product((0.5, 1.0), repeat=N * K)) + [tuple(0.0 if (i % 3 == 0) else 1.0 for i in range(N * K))]
            else:
                us = list(itertools.product(grid, repeat=N * K))
            for D in range(2, N + 1):
                for i in range(0, len(us), 60):
                    yield ("id", (N, K, D, us[i:i + 60]))


def check_size_history(item, acc):
    """every ordered sequence of model sizes N_1, N_2, N_3 evaluated in ONE freshly loaded copy of the model module (so module-level
    state - a table grown on demand, a memo keyed by d - starts empty and is then carried from model to model exactly as in a user's
    process): log_kappa and the expected degrees of the homogeneous model u = c 1, w = (a) against their closed forms
    kappa_d = C(N-2, d-2) d (d-1) / 2 and E[deg_i at size d] = c^2 a (N-1) / (d-1)."""
    import importlib
    import sys

    name = "hypergraphx.communities.hy_mmsbm.model"
    importlib.import_module(name)
    saved = sys.modules.pop(name)
    try:
        fresh = importlib.import_module(name)
    finally:
        sys.modules[name] = saved
        import hypergraphx.communities.hy_mmsbm as _pkg
        _pkg.model = saved
    wit = {"part": "size-history", "sizes": list(item)}

    def bad(what, msg):
        acc.violations.append(Violation("size-history/%s" % what, "%s; models of sizes %r evaluated in this order in one process" % (msg, list(item)), wit, len(item)))

    c, a = 0.5, 2.0
    for step, N in enumerate(item):
        acc.evaluations += 1
        try:
            m = fresh.HyMMSBM(u=np.full((N, 1), c), w=np.array([[a]]), max_hye_size=N)
            ds = list(range(2, N + 1))
            want = [math.log(kappa_def(N, d)) for d in ds]
            for d, wd in zip(ds, want):
                if not close(m.log_kappa(d), wd):
                    bad("log_kappa", "step %d N=%d: log_kappa(%d)=%r, definition %r" % (step, N, d, m.log_kappa(d), wd))
                    break
            if not close(m.log_kappa(np.array(ds)), want):
                bad("log_kappa", "step %d N=%d: log_kappa(array) differs from the definition" % (step, N))
            deg = sum(c * c * a * (N - 1) / (d - 1) for d in ds)
            got = m.expected_degree(per_node=False, d="all")
            if not close(got, deg, 1e-8):
                bad("expected_degree-average", "step %d N=%d: %r, closed form %r" % (step, N, got, deg))
            got = m.expected_degree(per_node=True, d="all")
            if not close(got, [deg] * N, 1e-8):
                bad("expected_degree-per-node", "step %d N=%d: %r, closed form %r" % (step, N, np.asarray(got).tolist(), deg))
        except Exception as e:
            bad("exception", "step %d N=%d raised %s: %s" % (step, N, type(e).__name__, e))
            return
    acc.outcomes.add(hash(("size-history", tuple(item))))
    if len(set(item)) >= 2:
        acc.nontrivial.add(hash(("size-history", tuple(item))))


def size_history_items(tier):
    sizes = (3, 4, 6, 9, 13) if tier == "quick" else (3, 4, 5, 6, 8, 11, 15, 22)
    for r in (1, 2, 3):
        for hist in itertools.product(sizes, repeat=r):
            yield ("sizes", hist)


def worker(part, acc):
    for kind, item in part:
        if kind == "sizes":
            check_size_history(item, acc)
        elif kind == "id":
            check_identities(item, acc)
        else:
            check_fit(item, acc)


def run(ctx):
    from ..seams import validate as _validate_seams

    seam_report = _validate_seams(PROP)  # real random sources under a recorder: every API reached must be modelled (else exit 2)
    ids = list(identity_items(ctx.tier))
    fits = list(fit_items(ctx.tier))
    hists = list(size_history_items(ctx.tier))
    items = ids + fits + hists
    k = ctx.jobs * 8
    shards = [items[i::k] for i in range(k)]
    ev, nt, oc = run_e4(ctx, [it for s in shards for it in s], worker, nchunks=k)
    ctx.part("inputs", identity_blocks=len(ids), fit_configurations=len(fits), size_histories=len(hists), evaluations=ev,
             ascent_sequences=ctx.counts.get("fit-ascent-sequences", 0))
    if not [v for v in ctx.violations if "w_prior>0/exact" not in v]:
        ctx.require(ctx.counts.get("fit-ascent-sequences", 0) > 200, "too few non-vacuous ascent sequences")
    f = fits[(ctx.seed * 11 + 2) % len(fits)][1]
    ctx.sample({"fit": {"edges": [list(e) for e in f[0]], "weights": f[1], "K": f[2], "u_supplied": f[3], "w_supplied": f[4], "assortative": f[5], "w_prior": f[6], "u_prior": f[7], "max_hye_size": f[8]}})
    i = ids[(ctx.seed * 5 + 1) % len(ids)][1]
    ctx.sample({"identities": {"N": i[0], "K": i[1], "D": i[2], "first_u_of_block": list(i[3][0])}})
    cov = {
        "seam_validation": seam_report,
        "evaluations": ev, "distinct_nontrivial": len(nt), "exhaustive": True, "distinct_outcomes": len(oc),
        "ascent_sequences_checked": ctx.counts.get("fit-ascent-sequences", 0),
        "ascent_sequences_vacuous": ctx.counts.get("fit-ascent-vacuous(max_hye_size below the data or zero rate)", 0),
        "rule": "size histories: every ordered sequence of 1-3 model sizes from {3,4,6,9,13} (thorough: 8 sizes up to 22) evaluated in one freshly "
                "loaded copy of the model module - log_kappa and expected degrees of the homogeneous model against closed forms (module-level state "
                "carried from one model to the next). identities: N in {3,4}, K in {1,2}, D in 2..N, u over the full grid {0,1/2,1}^(NxK) (NK<=6; NK=8: {1/2,1}^8 quick, full grid thorough), w over all "
                "symmetric matrices with entries {0,1,2}; every quantity compared with brute force over ALL hyperedges of size 2..D. fit: hypergraphs with 2-3 "
                "hyperedges of size 2-3 on 4 nodes (every 7th quick / every 2nd thorough), weighted and not, x {u,w supplied or not} x assortative x priors "
                "{0,1} x max_hye_size {None,4} x n_iter 1..5, the initial draw ranging over a menu (choice point). Non-trivial = identity input with a positive "
                "rate / a finite ascent sequence.",
    }
    return ctx.finish(cov, assumptions=[
        "checked quantities are polynomials of degree <=2 in each u entry and <=1 in each w entry, so agreement on a 3-point (u) / 2-point (w) grid extends to all reals IF the implementation is such a polynomial (it uses only @, *, sum)",
        "initial EM draws range over a finite menu of positive matrices (alphabet limit)"])


def replay(witness, key=None):
    from ..e4 import Acc

    acc = Acc()
    if witness["part"] == "size-history":
        check_size_history(tuple(witness["sizes"]), acc)
    elif witness["part"] == "identities":
        u = np.array(witness["u"]).reshape(-1)
        check_identities((witness["N"], witness["K"], witness["D"], [tuple(u.tolist())]), acc)
    else:
        wts = tuple(witness["weights"]) if witness["weights"] else None
        check_fit((tuple(tuple(e) for e in witness["edges"]), wts, witness["K"], witness["give_u"], witness["give_w"], witness["assortative"], witness["w_prior"],
                   witness["u_prior"], witness["max_hye_size"], "thorough"), acc)
    hit = [v for v in acc.violations if key is None or v.key == key or PROP + "/" + v.key == key]
    for v in hit[:3]:
        print("   " + v.msg[:700])
    return bool(hit)
