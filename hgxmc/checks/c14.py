"""C14 - random generators honour their structural contracts and their seeds (E3: every draw outcome)."""
import itertools

import numpy as np

from .. import choice as CH
from .. import corpus as C
from ..core import Violation
from ..e4 import run_e4
from .c05 import hview

LEVEL = "exploration"
PROP = "C14"


class LoggingStd(CH.FakeStdRandom):
    def __init__(self, ch):
        super().__init__(ch)
        self.samples = []
        self.events = []

    def seed(self, s=None):
        self.events.append(("seed", s))

    def sample(self, population, k):
        r = super().sample(population, k)
        self.samples.append(list(r))
        self.events.append(("sample",))
        return r

    def random(self):
        self.events.append(("random",))
        return super().random()


def edges_of(h):
    return sorted(tuple(sorted(e)) for e in h.get_edges())


def V(acc, key, msg, w, size):
    acc.violations.append(Violation(key, msg, w, size))


# ---- random_hypergraph / random_uniform_hypergraph ----------------------------------------------------------
def check_random_hypergraph(item, acc):
    import hypergraphx.generation.random as R

    n, spec, seed, uniform = item
    w = {"gen": "random_hypergraph", "n": n, "spec": list(map(list, spec)), "seed": seed, "uniform": uniform}
    size = n + sum(c for s, c in spec)
    spec_d = dict(spec)
    total = sum(spec_d.values())
    outs = set()

    def run(ch):
        f = LoggingStd(ch)
        with CH.patched(R, random=f):
            if uniform:
                (s, c), = spec
                h = R.random_uniform_hypergraph(n, s, c, seed)
            else:
                h = R.random_hypergraph(n, dict(spec), seed)
        return h, f

    try:
        for script, res, ch, pruned in acc.explore(run, budgets={"std.sample": total + 1}):
            acc.evaluations += 1
            if pruned:
                acc.count("pruned-redraw-budget")
                continue
            h, f = res
            E = edges_of(h)
            outs.add(tuple(E))
            if sorted(h.get_nodes()) != list(range(n)):
                V(acc, "random_hypergraph/nodes", "nodes %r, expected 0..%d (script %r)" % (h.get_nodes(), n - 1, script), dict(w, script=list(script)), size)
            for s, c in spec_d.items():
                got = [e for e in E if len(e) == s]
                if len(got) > c or (c >= 1 and len(got) < 1):
                    V(acc, "random_hypergraph/count", "size %d: %d hyperedges for %d requested (script %r)" % (s, len(got), c, script), dict(w, script=list(script)), size)
            if any(len(e) not in spec_d or len(set(e)) != len(e) or not set(e) <= set(range(n)) for e in E):
                V(acc, "random_hypergraph/shape", "hyperedges %r not of the requested sizes / with repeated or unknown nodes (script %r)" % (E, script), dict(w, script=list(script)), size)
            if seed is not None and (not f.events or f.events[0] != ("seed", seed)):
                V(acc, "random_hypergraph/seed-not-applied-first", "events %r: a draw precedes random.seed(%r)" % (f.events[:3], seed), dict(w, script=list(script)), size)
            if seed is None and any(e[0] == "seed" for e in f.events):
                V(acc, "random_hypergraph/reseeds-without-seed", "random.seed called although seed=None", dict(w, script=list(script)), size)
    except CH.UnownedRandomness:
        raise
    except Exception as e:
        V(acc, "random_hypergraph/exception", "raised %s: %s for %r" % (type(e).__name__, e, w), w, size)
        return
    acc.outcomes.add(hash((n, spec, len(outs))))
    if len(outs) >= 2:
        acc.nontrivial.add(hash((n, spec, uniform)))


def check_seed_real(item, acc):
    """same seed => same hypergraph, with the real generators"""
    import random as _r

    import hypergraphx.generation.random as R

    n, spec, seed = item
    acc.evaluations += 1
    _r.seed(12345)
    a = R.random_hypergraph(n, dict(spec), seed)
    _r.random()
    _r.seed(999)
    b = R.random_hypergraph(n, dict(spec), seed)
    if edges_of(a) != edges_of(b) or a.get_nodes() != b.get_nodes():
        V(acc, "random_hypergraph/seed-not-reproducible", "seed %r gave %r then %r" % (seed, edges_of(a), edges_of(b)), {"gen": "seed-real", "n": n, "spec": list(map(list, spec)), "seed": seed}, n)
    else:
        acc.nontrivial.add(hash(("seed", n, spec, seed)))


# ---- add_random_edge(s) ---------------------------------------------------------------------------------
def check_add_random(item, acc):
    import hypergraphx.generation.random as R

    desc, size_k, num, inplace, use_order = item
    w = {"gen": "add_random", "desc": C.show(desc), "size": size_k, "num": num, "inplace": inplace, "use_order": use_order}
    size = len(desc["edges"]) + len(desc["nodes"])
    kw = {"order": size_k - 1} if use_order else {"size": size_k}
    before = hview(C.build(desc))
    nodes = set(desc["nodes"])
    old_edges = {tuple(sorted(e)) for e in desc["edges"]}
    outs = set()

    def run(ch):
        h = C.build(desc)
        with CH.patched(R, random=LoggingStd(ch)):
            r = R.add_random_edge(h, inplace=inplace, **kw) if num is None else R.add_random_edges(h, num, inplace=inplace, **kw)
        return h, r

    try:
        for script, res, ch, pruned in acc.explore(run, budgets={"std.sample": (num or 1) + 1}):
            acc.evaluations += 1
            if pruned:
                acc.count("pruned-redraw-budget")
                continue
            h, r = res
            out = h if inplace else r
            ws = dict(w, script=list(script))
            if inplace and r is not None:
                V(acc, "add_random/return", "inplace=True returned %r" % (r,), ws, size)
            if not inplace and hview(h) != before:
                V(acc, "add_random/argument-changed", "inplace=False changed its argument %s" % C.show(desc), ws, size)
            ov = hview(out)
            if ov[0] == "ERR":
                V(acc, "add_random/exception", "result unreadable %r" % (ov,), ws, size)
                continue
            new = [e for e in edges_of(out) if e not in old_edges]
            outs.add(tuple(new))
            if any(len(e) != size_k or not set(e) <= nodes or len(set(e)) != len(e) for e in new) or len(new) > (num or 1):
                V(acc, "add_random/new-edges", "added %r (requested %s of size %d over %r)" % (new, num or 1, size_k, sorted(nodes, key=repr)), ws, size)
            # everything else intact: nodes + metadata, and every old hyperedge that was not re-drawn keeps weight and metadata
            drawn = {e for e in edges_of(out)} - set(new)
            if ov[1] != before[1]:
                V(acc, "add_random/nodes-changed", "nodes/metadata changed: %r -> %r" % (before[1], ov[1]), ws, size)
            bmap = {e: (wt, md) for e, wt, md in before[2]}
            omap = {e: (wt, md) for e, wt, md in ov[2]}
            if set(bmap) - set(omap):
                V(acc, "add_random/edges-lost", "old hyperedges disappeared: %r" % (sorted(set(bmap) - set(omap)),), ws, size)
            for e in bmap:
                if e in omap and omap[e] != bmap[e] and len(e) != size_k:
                    V(acc, "add_random/other-edge-changed", "hyperedge %r changed from %r to %r" % (e, bmap[e], omap[e]), ws, size)
    except CH.UnownedRandomness:
        raise
    except Exception as e:
        V(acc, "add_random/exception", "raised %s: %s for %r" % (type(e).__name__, e, w), w, size)
        return
    if len(outs) >= 2:
        acc.nontrivial.add(hash(("add", repr(C.show(desc)), size_k, num, inplace)))
    acc.outcomes.add(hash((repr(desc["edges"]), size_k, num, len(outs))))


# ---- random_shuffle / random_shuffle_all_orders --------------------------------------------------------------
def check_shuffle(item, acc):
    import hypergraphx.generation.random as R

    desc, size_k, p, preserve, inplace, all_orders = item
    w = {"gen": "shuffle", "desc": C.show(desc), "size": size_k, "p": p, "preserve_degree": preserve, "inplace": inplace, "all_orders": all_orders}
    size = len(desc["edges"]) + len(desc["nodes"])
    before = hview(C.build(desc))
    bmap = {e: (wt, md) for e, wt, md in before[2]}
    outs = set()

    def run(ch):
        h = C.build(desc)
        f = LoggingStd(ch)
        with CH.patched(R, random=f, np=CH.NumpyShim(np, CH.FakeNumpyRandom(ch, np))):
            if all_orders:
                r = R.random_shuffle_all_orders(h, p=p, inplace=inplace, preserve_degree=preserve)
            else:
                r = R.random_shuffle(h, size=size_k, p=p, inplace=inplace, preserve_degree=preserve)
        return h, r, f, list(h.get_edges(size=size_k)) if not all_orders else None

    try:
        for script, res, ch, pruned in acc.explore(run):
            acc.evaluations += 1
            h, r, f, _ = res
            out = h if (inplace and not all_orders) else (r if r is not None else h)
            ws = dict(w, script=list(script))
            if not inplace and hview(h) != before:
                V(acc, "shuffle/argument-changed", "inplace=False changed its argument", ws, size)
            ov = hview(out)
            if ov[0] == "ERR":
                V(acc, "shuffle/exception", "result unreadable %r" % (ov,), ws, size)
                continue
            omap = {e: (wt, md) for e, wt, md in ov[2]}
            outs.add(tuple(sorted(omap)))
            if ov[1] != before[1]:
                V(acc, "shuffle/nodes-changed", "node set / node metadata changed: %r -> %r" % (before[1], ov[1]), ws, size)
            sizes = sorted({len(e) for e in bmap}) if all_orders else [size_k]
            for e in bmap:
                if len(e) not in sizes and omap.get(e) != bmap[e]:
                    V(acc, "shuffle/other-size-changed", "hyperedge %r of another size changed: %r -> %r" % (e, bmap[e], omap.get(e)), ws, size)
            if p == 0 and ov != before:
                V(acc, "shuffle/p0-changes", "p=0 changed the hypergraph: %r -> %r" % (before, ov), ws, size)
            for k in sizes:
                cur = [e for e in bmap if len(e) == k]
                got = [e for e in omap if len(e) == k]
                if len(got) > len(cur) or (cur and not got):
                    V(acc, "shuffle/size-count", "size %d: %d hyperedges before, %d after" % (k, len(cur), len(got)), ws, size)
                if any(len(set(e)) != len(e) for e in got):
                    V(acc, "shuffle/repeated-node", "a rewired hyperedge repeats a node: %r" % (got,), ws, size)
            if set(len(e) for e in omap) - set(len(e) for e in bmap):
                V(acc, "shuffle/new-size", "hyperedges of a new size appeared: %r" % (sorted(omap),), ws, size)
            if not all_orders and f.samples:
                # replacement nodes come only from the hyperedges chosen for rewiring; the others stay
                order_edges = [tuple(sorted(e)) for e in C.build(desc).get_edges(size=size_k)]
                chosen = [order_edges[i] for i in f.samples[0]]
                pool = {v for e in chosen for v in e}
                kept = [e for e in order_edges if e not in chosen]
                if any(e not in omap for e in kept):
                    V(acc, "shuffle/unselected-edge-lost", "a hyperedge not selected for rewiring disappeared (selected %r): %r -> %r" % (chosen, order_edges, sorted(omap)), ws, size)
                for e in omap:
                    if len(e) == size_k and e not in kept and not set(e) <= pool:
                        V(acc, "shuffle/outside-pool", "new hyperedge %r uses nodes outside the rewired hyperedges %r" % (e, chosen), ws, size)
                for e in kept:
                    if chosen and set(e) <= pool:
                        continue  # a rewired hyperedge may have landed on it (re-insertion: weight added / metadata kept or reset)
                    if e in omap and omap[e] != bmap[e]:
                        V(acc, "shuffle/unselected-edge-changed", "hyperedge %r was not selected for rewiring but changed %r -> %r" % (e, bmap[e], omap[e]), ws, size)
    except CH.UnownedRandomness:
        raise
    except Exception as e:
        V(acc, "shuffle/exception", "raised %s: %s for %r" % (type(e).__name__, e, w), w, size)
        return
    if len(outs) >= 2:
        acc.nontrivial.add(hash(("shuffle", repr(C.show(desc)), size_k, p, preserve, inplace, all_orders)))
    acc.outcomes.add(hash((repr(desc["edges"]), size_k, p, len(outs))))


# ---- scale-free ------------------------------------------------------------------------------------------------
EXP_MENU = {3: [[3.0, 2.0, 1.0], [1.0, 2.0, 2.0], [1.0, 1.0, 1.0]], 4: [[4.0, 3.0, 2.0, 1.0], [1.0, 2.0, 2.0, 3.0], [1.0, 1.0, 1.0, 1.0]]}


def check_scale_free(item, acc):
    import hypergraphx.generation.scale_free as SF

    n, spec, kwargs = item
    w = {"gen": "scale_free", "n": n, "spec": list(map(list, spec)), "kwargs": kwargs}
    size = n + sum(c for s, c in spec)
    total = sum(c for s, c in spec)
    outs = set()

    def run(ch):
        fake = CH.FakeNumpyRandom(ch, np, menus={"exponential": lambda shape: EXP_MENU[n]})
        with CH.patched(SF, np=CH.NumpyShim(np, fake)):
            return SF.scale_free_hypergraph(n, dict(spec), {s: 1.0 for s, c in spec}, **kwargs)

    try:
        for script, res, ch, pruned in acc.explore(run, budgets={"np.choice-noreplace": total + 2 + kwargs.get("num_shuffles", 0) * len(spec)}, horizon=60):
            acc.evaluations += 1
            if pruned:
                acc.count("pruned-redraw-budget")
                continue
            E = edges_of(res)
            outs.add(tuple(E))
            ws = dict(w, script=list(script))
            if sorted(res.get_nodes()) != list(range(n)):
                V(acc, "scale_free/nodes", "nodes %r" % (res.get_nodes(),), ws, size)
            for s, c in spec:
                got = [e for e in E if len(e) == s]
                if len(got) != c or any(len(set(e)) != s for e in got):
                    V(acc, "scale_free/count", "size %d: %r for %d requested" % (s, got, c), ws, size)
            if len(E) != total:
                V(acc, "scale_free/extra-sizes", "hyperedges %r" % (E,), ws, size)
    except CH.UnownedRandomness:
        raise
    except Exception as e:
        V(acc, "scale_free/exception/%s" % ("defaults" if not kwargs else "+".join(sorted(kwargs))), "raised %s: %s for %r" % (type(e).__name__, e, w), w, size)
        return
    if len(outs) >= 2:
        acc.nontrivial.add(hash(("sf", n, spec, repr(kwargs))))
    acc.outcomes.add(hash((n, spec, repr(kwargs), len(outs))))


# ---- activity driven ---------------------------------------------------------------------------------------------
def check_hoad(item, acc):
    import hypergraphx.generation.activity_driven as AD

    N, acts, time = item
    w = {"gen": "hoad", "N": N, "acts": {str(k): v for k, v in acts}, "time": time}
    size = N * time
    outs = set()

    def run(ch):
        with CH.patched(AD, random=LoggingStd(ch)):
            return AD.HOADmodel(N, {k: list(v) for k, v in acts}, time=time)

    try:
        for script, res, ch, pruned in acc.explore(run, horizon=200):
            acc.evaluations += 1
            if pruned:
                acc.count("pruned-horizon")
                continue
            E = list(res.get_edges())
            outs.add(tuple(sorted(E)))
            orders = {k for k, v in acts}
            ws = dict(w, script=list(script))
            for t, e in E:
                if not (0 <= t < time) or len(e) - 1 not in orders or len(set(e)) != len(e) or not set(e) <= set(range(N)):
                    V(acc, "hoad/record", "record (%r, %r) outside the contract (N=%d, orders %r, time %d)" % (t, e, N, sorted(orders), time), ws, size)
            if type(res).__name__ != "TemporalHypergraph":
                V(acc, "hoad/type", "returned %s" % type(res).__name__, ws, size)
    except CH.UnownedRandomness:
        raise
    except Exception as e:
        V(acc, "hoad/exception", "raised %s: %s for %r" % (type(e).__name__, e, w), w, size)
        return
    if len(outs) >= 2:
        acc.nontrivial.add(hash(("hoad", N, acts, time)))
    acc.outcomes.add(hash((N, acts, time, len(outs))))


# ---- corpora ---------------------------------------------------------------------------------------------------------
def items(tier):
    # random_hypergraph: all maps with sizes in {1,2,3}, counts <= 2, n <= 4
    for n in (3, 4):
        sizes = [s for s in (1, 2, 3) if s <= n]
        for r in (1, 2, 3):
            for ss in itertools.combinations(sizes, r):
                for cs in itertools.product((1, 2), repeat=r):
                    if tier == "quick" and (sum(cs) > 3 or (n == 4 and sum(cs) > 2)):
                        continue
                    if sum(cs) > 4:
                        continue
                    spec = tuple(zip(ss, cs))
                    for seed in (None, 3):
                        yield ("rh", (n, spec, seed, False))
                    if r == 1:
                        yield ("rh", (n, spec, 7, True))
                    for seed in (0, 1, 2):
                        yield ("seed", (n, spec, seed))
    yield ("rh", (3, ((2, 0),), None, False))
    # add_random_edge(s) / shuffles on a small corpus of contents
    base = list(C.hypergraph_contents((2, 5, 7), isolated=(11,), lo=1, hi=3, max_edges=2, weighted=(False, True), md_styles=(1,)))
    base = [d for d in base if len(d["nodes"]) >= 3]
    for d in base[:: (3 if tier == "quick" else 1)]:
        for k in (1, 2, 3):
            for inplace in (True, False):
                yield ("add", (d, k, None, inplace, k == 2))
                if k <= 2:
                    yield ("add", (d, k, 2, inplace, False))
    sh = list(C.hypergraph_contents((2, 5, 7, 11), isolated=(13,), lo=2, hi=3, max_edges=3, min_edges=1, weighted=(False, True), md_styles=(1,)))
    sh = [d for d in sh if len(d["edges"]) >= 2 or tier != "quick"]
    for d in sh[:: (6 if tier == "quick" else 1)]:
        ks = sorted({len(e) for e in d["edges"]})
        for k in ks:
            for p in (0, 0.5, 1):
                for preserve in (False, True):
                    for inplace in (True, False):
                        yield ("shuffle", (d, k, p, preserve, inplace, False))
        for p in (0, 1):
            for inplace in (True, False):
                yield ("shuffle", (d, None, p, False, inplace, True))
    # scale-free
    for n in (3, 4):
        for spec in ([(2, 1)], [(2, 2)], [(3, 1)], [(2, 1), (3, 1)], [(2, 2), (3, 1)]):
            if n == 4 and tier == "quick" and len(spec) > 1:
                continue
            spec = tuple(spec)
            yield ("sf", (n, spec, {}))
            yield ("sf", (n, spec, {"correlated": False}))
            if tier != "quick" or n == 3:
                yield ("sf", (n, spec, {"corr_target": 1.0}))
                yield ("sf", (n, spec, {"corr_target": 0.5}))
                yield ("sf", (n, spec, {"num_shuffles": 1}))
    # activity driven
    for N in (2, 3):
        for order in (1, 2):
            if order >= N:
                continue
            for act in itertools.product((0.0, 0.5, 1.0), repeat=N):
                for time in (1, 2):
                    if tier == "quick" and N == 3 and time == 2 and act.count(0.5) > 1:
                        continue
                    yield ("hoad", (N, ((order, act),), time))
    yield ("hoad", (3, ((1, (0.5, 0.0, 1.0)), (2, (0.0, 0.5, 0.0))), 1))


def worker(part, acc):
    for kind, item in part:
        {"rh": check_random_hypergraph, "seed": check_seed_real, "add": check_add_random, "shuffle": check_shuffle, "sf": check_scale_free, "hoad": check_hoad}[kind](item, acc)


def run(ctx):
    from ..seams import validate as _validate_seams

    seam_report = _validate_seams(PROP)  # real random sources under a recorder: every API reached must be modelled (else exit 2)
    its = list(items(ctx.tier))
    k = ctx.jobs * 8
    shards = [its[i::k] for i in range(k)]
    ev, nt, oc = run_e4(ctx, [it for s in shards for it in s], worker, nchunks=k, budget=60000000 if ctx.tier == "quick" else 1200000000, config_cap=1500000 if ctx.tier == "quick" else 30000000)
    from collections import Counter

    kinds = Counter(kd for kd, _ in its)
    ctx.part("inputs", executions=ev, **{kk: v for kk, v in kinds.items()})
    ctx.require(len(its) > 500, "corpus too small")
    for kd in ("rh", "shuffle", "sf", "hoad"):
        sel = [it for it in its if it[0] == kd]
        it = sel[(ctx.seed * 3 + 1) % len(sel)][1]
        ctx.sample({kd: [C.show(x) if isinstance(x, dict) and "kind" in x else x for x in it]})
    cov = {
        "seam_validation": seam_report,
        "evaluations": ev, "distinct_nontrivial": len(nt), "exhaustive": not (ctx.counts.get("configurations-capped-by-budget", 0) or ctx.counts.get("configurations-skipped-budget-exhausted", 0)),
        "configurations_capped_or_skipped_by_execution_budget": ctx.counts.get("configurations-capped-by-budget", 0) + ctx.counts.get("configurations-skipped-budget-exhausted", 0), "configurations": len(its), "distinct_outcomes": len(oc),
        "pruned_at_budget": ctx.counts.get("pruned-redraw-budget", 0) + ctx.counts.get("pruned-horizon", 0),
        "rule": "every answer of every draw (random.sample -> every k-subset, ordered when <=24; np.random.choice(replace=False,p) -> every subset of the "
                "support; coins -> both outcomes unless forced; exponential -> menu of 3 vectors) for: random_hypergraph (n<=4, size->count maps over sizes 1-3, "
                "counts<=2), random_uniform_hypergraph, add_random_edge(s) and random_shuffle(_all_orders) on small contents (p in {0,.5,1}, preserve_degree, "
                "inplace both ways), scale_free_hypergraph with default and variant arguments, HOADmodel (N<=3, time<=2, activities over {0,.5,1}); redraw loops "
                "cut by per-label call budgets (pruned executions are counted). Seeds: random.seed(seed) must precede the first draw, and the real generator "
                "is run twice per seed in {0,1,2}. Non-trivial = configuration with >= 2 distinct outputs.",
    }
    return ctx.finish(cov, assumptions=["random / np.random reached only through module-level names (seams); unknown random APIs raise UnownedRandomness (harness error)"])


def replay(witness, key=None):
    from ..e4 import Acc

    acc = Acc()
    g = witness["gen"]
    if g == "random_hypergraph":
        check_random_hypergraph((witness["n"], tuple(map(tuple, witness["spec"])), witness["seed"], witness["uniform"]), acc)
    elif g == "seed-real":
        check_seed_real((witness["n"], tuple(map(tuple, witness["spec"])), witness["seed"]), acc)
    elif g == "add_random":
        check_add_random((C.from_show(witness["desc"]), witness["size"], witness["num"], witness["inplace"], witness["use_order"]), acc)
    elif g == "shuffle":
        check_shuffle((C.from_show(witness["desc"]), witness["size"], witness["p"], witness["preserve_degree"], witness["inplace"], witness["all_orders"]), acc)
    elif g == "scale_free":
        check_scale_free((witness["n"], tuple(map(tuple, witness["spec"])), witness["kwargs"]), acc)
    else:
        check_hoad((witness["N"], tuple((int(k), tuple(v)) for k, v in witness["acts"].items()), witness["time"]), acc)
    hit = [v for v in acc.violations if key is None or v.key == key or PROP + "/" + v.key == key]
    for v in hit[:3]:
        print("   " + v.msg[:700])
    return bool(hit)
