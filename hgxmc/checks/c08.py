"""C08 - degrees and connected components equal their combinatorial definitions (E4, exhaustive)."""
from collections import Counter

from .. import corpus as C
from ..core import Violation
from ..e4 import run_e4
from ..specs import q
from .c05 import components

LEVEL = "exploration"
PROP = "C08"

FILTERS = [()] + [(("order", k),) for k in range(0, 4)] + [(("size", k),) for k in range(1, 5)]


def fsize(f):
    d = dict(f)
    if not d:
        return None
    return d["size"] if "size" in d else d["order"] + 1


def rec_nodes(kind, e):
    if kind == "H":
        return e
    if kind == "D":
        return e[0] + e[1]
    if kind == "T":
        return e[1]
    return e[0]


def fn(f):
    return ",".join("%s=%s" % kv for kv in f) or "none"


def canon_comps(cs):
    return sorted((tuple(sorted(c, key=repr)) for c in cs), key=repr)


def check_one(desc, acc):
    import hypergraphx.measures.degree as MD
    import hypergraphx.utils.cc as CC

    kind = desc["kind"]
    N, E = desc["nodes"], desc["edges"]
    base = dict(desc=C.show(desc))
    size = len(E) + len(N)
    n_e = len(E)
    churns = [("churn", i, j) for i in range(n_e) for j in range(n_e) if i != j] if (kind == "H" and 2 <= n_e <= 4) else ([2] if n_e >= 2 else [])
    for detour in [False, True] + churns + (["shrink"] if kind != "D" else []):
        h = C.build(desc, detour=detour)
        w = dict(base, detour=detour)

        def bad(what, f, msg):
            acc.violations.append(Violation("%s/%s/%s" % (kind, what, "filter" if f else "nofilter"), "%s [filter %s, detour=%s] on %s" % (msg, fn(f), detour, C.show(desc)), w, size))

        for f in FILTERS:
            kw = dict(f)
            k = fsize(f)
            FE = [e for e in E if k is None or len(rec_nodes(kind, e)) == k]
            deg = {n: sum(1 for e in FE if n in rec_nodes(kind, e)) for n in N}
            acc.evaluations += 1
            # --- degrees -------------------------------------------------------------------
            for n in N:
                g1 = q(lambda: h.degree(n, **kw))
                g2 = q(lambda: MD.degree(h, n, **kw))
                if g1 != deg[n] or g2 != deg[n]:
                    bad("degree", f, "degree(%r): method %r, function %r, definition %r" % (n, g1, g2, deg[n]))
                    break
            g = q(lambda: h.degree_sequence(**kw))
            g2 = q(lambda: MD.degree_sequence(h, **kw))
            if g != deg or g2 != deg:
                bad("degree_sequence", f, "degree_sequence: %r / %r, definition %r" % (g, g2, deg))
            elif sum(g.values()) != sum(len(rec_nodes(kind, e)) for e in FE):
                bad("degree_sum", f, "degrees do not sum to total size")
            elif kind == "H":
                # ... of the hyperedges the object itself lists under the same filter
                listed = q(lambda: h.get_edges(**kw))
                try:
                    tot = sum(len(e) for e in listed)
                except Exception:
                    tot = None
                if tot != sum(g.values()):
                    bad("degree_sum", f, "degrees sum to %r, the listed hyperedges %r have total size %r" % (sum(g.values()), listed, tot))
            if kind != "M":
                hist = dict(Counter(deg.values()))
                g = q(lambda: h.degree_distribution(**kw))
                g2 = q(lambda: MD.degree_distribution(h, **kw))
                if g != hist or g2 != hist:
                    bad("degree_distribution", f, "degree_distribution: %r / %r, definition %r" % (g, g2, hist))
            if deg and max(deg.values()) >= 2:
                acc.nontrivial.add(hash((C.show(desc)["edges"].__repr__(), f)))
            acc.outcomes.add(hash(tuple(sorted(deg.items(), key=repr))))
            # --- isolated nodes (all but multiplex have get_neighbors) --------------------------
            if kind in ("H", "D", "T"):
                iso = sorted((n for n in N if not any(n in rec_nodes(kind, e) and len(rec_nodes(kind, e)) >= 2 for e in FE)), key=repr)
                g = q(lambda: sorted(h.isolated_nodes(**kw), key=repr))
                g2 = q(lambda: sorted(CC.isolated_nodes(h, **kw), key=repr))
                if g != iso or g2 != iso:
                    bad("isolated_nodes", f, "isolated_nodes: %r / %r, definition %r" % (g, g2, iso))
                for n in N:
                    g = q(lambda: h.is_isolated(n, **kw))
                    if g != (n in iso):
                        bad("is_isolated", f, "is_isolated(%r): %r, definition %r" % (n, g, n in iso))
                        break
            if kind != "H":
                continue
            # --- connected components -------------------------------------------------------------
            comps = components(N, FE)
            want = canon_comps(comps)
            for src, call in (("method", lambda: h.connected_components(**kw)), ("function", lambda: CC.connected_components(h, **kw))):
                g = q(call)
                try:
                    gl = [set(c) for c in g]
                    flat = [n for c in gl for n in c]
                    ok = canon_comps(gl) == want and len(flat) == len(set(flat)) == len(N)
                except Exception:
                    ok = False
                if not ok:
                    bad("connected_components", f, "connected_components (%s): %r, definition %r" % (src, g, want))
            if not N:
                continue
            g = q(lambda: h.num_connected_components(**kw))
            if g != len(comps) or q(lambda: CC.num_connected_components(h, **kw)) != len(comps):
                bad("num_connected_components", f, "num_connected_components: %r, definition %r" % (g, len(comps)))
            g = q(lambda: h.is_connected(**kw))
            if g != (len(comps) == 1) or q(lambda: CC.is_connected(h, **kw)) != (len(comps) == 1):
                bad("is_connected", f, "is_connected: %r, definition %r" % (g, len(comps) == 1))
            mx = max(len(c) for c in comps)
            g = q(lambda: h.largest_component_size(**kw))
            if g != mx or q(lambda: CC.largest_component_size(h, **kw)) != mx:
                bad("largest_component_size", f, "largest_component_size: %r, definition %r" % (g, mx))
            g = q(lambda: set(h.largest_component(**kw)))
            g2 = q(lambda: set(CC.largest_component(h, **kw)))
            big = [set(c) for c in comps if len(c) == mx]
            if g not in big or g2 not in big:
                bad("largest_component", f, "largest_component: %r, any of %r expected" % (g, big))
            for n in N:
                g = q(lambda: set(h.node_connected_component(n, **kw)))
                g2 = q(lambda: set(CC.node_connected_component(h, n, **kw)))
                wantc = next(set(c) for c in comps if n in c)
                if g != wantc or g2 != wantc:
                    bad("node_connected_component", f, "node_connected_component(%r): %r, definition %r" % (n, g, wantc))
                    break
            if len(comps) >= 2 and mx >= 2:
                acc.nontrivial.add(hash(("cc", repr(want), f)))
            acc.outcomes.add(hash(repr(want)))
        if kind != "H" or detour not in (False, True):
            continue
        # --- the same object after a node-only change, and after an in-place change of its hyperedges: every connectivity
        #     query above has already been asked once of this object (answers must not be remembered across changes)
        xn = "zz8" if not N or isinstance(N[0], str) else 10 ** 6 + 1
        steps = [("add_node", lambda: h.add_node(xn), list(N) + [xn], list(E))]
        if N:
            steps.append(("add_edge", lambda: h.add_edge((N[0], xn)), list(N) + [xn], list(E) + [(N[0], xn)]))
            steps.append(("remove_edge", lambda: h.remove_edge((N[0], xn)), list(N) + [xn], list(E)))
        steps.append(("remove_node", lambda: h.remove_node(xn), list(N), list(E)))
        for sname, act, N2, E2 in steps:
            try:
                act()
            except Exception as e:
                bad("second-call/%s" % sname, (), "raised %s: %s" % (type(e).__name__, e))
                break
            for f in FILTERS[:1] + FILTERS[2:4] + FILTERS[6:8]:
                kw = dict(f)
                k = fsize(f)
                FE = [e for e in E2 if k is None or len(e) == k]
                acc.evaluations += 1
                comps = components(N2, FE)
                want = canon_comps(comps)
                g = q(lambda: h.connected_components(**kw))
                try:
                    ok = canon_comps([set(c) for c in g]) == want
                except Exception:
                    ok = False
                if not ok:
                    bad("second-call/connected_components", f, "after %s on the same object: %r, definition %r" % (sname, g, want))
                if not N2:
                    continue
                g = (q(lambda: h.is_connected(**kw)), q(lambda: h.num_connected_components(**kw)), q(lambda: h.largest_component_size(**kw)))
                wantt = (len(comps) == 1, len(comps), max(len(c) for c in comps))
                if g != wantt:
                    bad("second-call/component-summaries", f, "after %s on the same object: (is_connected, number, largest size) = %r, definition %r" % (sname, g, wantt))
                deg = {n: sum(1 for e in FE if n in e) for n in N2}
                g = q(lambda: h.degree_sequence(**kw))
                if g != deg:
                    bad("second-call/degree_sequence", f, "after %s on the same object: %r, definition %r" % (sname, g, deg))


def corpus(tier):
    U = (2, 5, 7, 11)
    if tier == "quick":
        yield from C.hypergraph_contents(U, isolated=(), lo=1, hi=4, max_edges=4, weighted=(False,), md_styles=(0,))
        yield from C.hypergraph_contents(U[:3], isolated=(13,), lo=1, hi=3, max_edges=3, weighted=(True,), md_styles=(0,))
        yield from C.hypergraph_contents(("a", "b", "c"), isolated=("d",), lo=1, hi=3, max_edges=3, weighted=(False,), md_styles=(0,))
        me = 2
    else:
        yield from C.hypergraph_contents(U, isolated=(), lo=1, hi=4, max_edges=15, weighted=(False,), md_styles=(0,))
        yield from C.hypergraph_contents(U, isolated=(13,), lo=1, hi=4, max_edges=4, weighted=(True,), md_styles=(0,))
        yield from C.hypergraph_contents(("a", "b", "c"), isolated=("d",), lo=1, hi=3, max_edges=7, weighted=(False,), md_styles=(0,))
        me = 3
    yield from C.directed_contents(U[:3], isolated=(13,), max_edges=me, weighted=(False,), md_styles=(0,))
    yield from C.temporal_contents(U[:3], times=(0, 2), isolated=(13,), lo=1, hi=3, max_edges=me, weighted=(False,), md_styles=(0,))
    yield from C.multiplex_contents(U[:3], layers=("a", "b"), isolated=(13,), lo=1, hi=3, max_edges=me, weighted=(False,), md_styles=(0,))


def run(ctx):
    items = list(corpus(ctx.tier))
    ev, nt, oc = run_e4(ctx, items, lambda part, acc: [check_one(d, acc) for d in part])
    ctx.part("inputs", contents=len(items))
    ctx.require(len(items) > 2000, "corpus too small")
    for i in (0, 1, 2, 3):
        ctx.sample(C.show(items[(ctx.seed + 1 + i * (len(items) // 4)) % len(items)]))
    cov = {
        "evaluations": ev, "distinct_nontrivial": len(nt), "exhaustive": True, "inputs": len(items), "distinct_outcomes": len(oc),
        "rule": "every Hypergraph over {2,5,7,11} with hyperedges of size 1-4 (quick <=4 hyperedges; thorough all 2^15), plus weighted/string-label/"
                "isolated-node variants, built directly and by a detour history; x every filter none/order 0-3/size 1-4, every node; methods and module "
                "functions; degrees also on small Directed/Temporal/Multiplex contents. evaluations = (content, build, filter) triples. Non-trivial = some "
                "degree >= 2, or >= 2 components one of which has >= 2 nodes (distinct by content and filter).",
    }
    return ctx.finish(cov, assumptions=["definitions: degree = #filtered records containing the node; components = union-find over filtered hyperedges"])


def replay(witness, key=None):
    from ..e4 import Acc

    acc = Acc()
    check_one(C.from_show(witness["desc"]), acc)
    hit = [v for v in acc.violations if key is None or v.key == key or PROP + "/" + v.key == key]
    for v in hit[:3]:
        print("   " + v.msg[:600])
    return bool(hit)
