"""C12 - directed measures follow their definitions; exact <= strong <= weak reciprocity (E4, exhaustive)."""
import itertools
from fractions import Fraction

from .. import corpus as C
from ..core import Violation
from ..e4 import run_e4
from ..specs import q

LEVEL = "exploration"
PROP = "C12"

FILTERS = [()] + [(("order", k),) for k in range(1, 5)] + [(("size", k),) for k in range(2, 6)]


def check_one(desc, acc):
    import numpy as np
    from hypergraphx.measures.directed import (exact_reciprocity, hyperedge_signature_vector, in_degree, in_degree_sequence,
                                               out_degree, out_degree_sequence, strong_reciprocity, weak_reciprocity)

    N = list(desc["nodes"])
    E = [(tuple(sorted(s)), tuple(sorted(t))) for s, t in desc["edges"]]
    base = dict(desc=C.show(desc))
    size = len(E)
    N0 = list(desc["nodes"])
    E0 = list(E)
    for detour in (False, True, 2):
        h = C.build(desc, detour=detour)
        w = dict(base, detour=detour)
        # stage None: the object as built; then (direct build only) a hyperedge towards a new node is added to the SAME object and
        # removed again: every measure has been computed on it before, nothing may be remembered across the change
        stages = [None] + (["add", "remove"] if detour is False and N0 else [])
        xn = 10 ** 6 + 1
        for stage in stages:
            N, E = list(N0), list(E0)
            tag = "" if stage is None else "second-call/"

            def bad(what, msg):
                acc.violations.append(Violation(tag + what, "%s (detour=%s, stage=%s) on %s" % (msg, detour, stage, C.show(desc)), w, size))

            try:
                if stage == "add":
                    h.add_edge(((N0[0],), (xn,)))
                    N, E = N0 + [xn], E0 + [((N0[0],), (xn,))]
                elif stage == "remove":
                    h.remove_node(xn)
            except Exception as e:
                bad("exception", "%s raised %s: %s" % (stage, type(e).__name__, e))
                break
            # degrees
            for f in FILTERS:
                acc.evaluations += 1
                d = dict(f)
                k = None if not d else (d["size"] if "size" in d else d["order"] + 1)
                FE = [e for e in E if k is None or len(e[0]) + len(e[1]) == k]
                win = {n: sum(1 for e in FE if n in e[0]) for n in N}
                wout = {n: sum(1 for e in FE if n in e[1]) for n in N}
                gi = q(lambda: in_degree_sequence(h, **d))
                go = q(lambda: out_degree_sequence(h, **d))
                if gi != win:
                    bad("in_degree_sequence", "filter %r: %r, definition %r" % (d, gi, win))
                if go != wout:
                    bad("out_degree_sequence", "filter %r: %r, definition %r" % (d, go, wout))
                for n in N:
                    if q(lambda: in_degree(h, n, **d)) != win[n] or q(lambda: out_degree(h, n, **d)) != wout[n]:
                        bad("in_out_degree", "filter %r node %r: in %r out %r, definition %r %r" % (d, n, q(lambda: in_degree(h, n, **d)), q(lambda: out_degree(h, n, **d)), win[n], wout[n]))
                        break
            maxsize = max((len(s) + len(t) for s, t in E), default=2)
            for bound in [None] + list(range(2, 7)):
                acc.evaluations += 1
                b = bound if bound is not None else maxsize
                BE = [e for e in E if len(e[0]) + len(e[1]) <= b]
                # signature
                if E or bound is not None:
                    want = np.zeros((b - 1, b - 1))
                    for s, t in BE:
                        want[len(s) - 1, len(t) - 1] += 1
                    got = q(lambda: hyperedge_signature_vector(h, max_hyperedge_size=bound) if bound is not None else hyperedge_signature_vector(h))
                    try:
                        ok = got.shape == ((b - 1) ** 2,) and (got == want.flatten()).all() and got.sum() == len(BE)
                    except Exception:
                        ok = False
                    if not ok:
                        bad("hyperedge_signature_vector", "bound %r: %r, definition %r" % (bound, got, want.flatten()))
                if bound is None:
                    continue
                # reciprocities by definition over the size-bounded hyperedge set
                S = set(BE)
                reach = set()
                for s, t in BE:
                    for i in s:
                        for j in t:
                            reach.add((i, j))  # i -> j through some bounded hyperedge
                want_e, want_s, want_w = {}, {}, {}
                for k in range(2, b + 1):
                    es = [e for e in BE if len(e[0]) + len(e[1]) == k]
                    if not es:
                        want_e[k] = want_s[k] = want_w[k] = 0
                        continue
                    want_e[k] = Fraction(sum(1 for s, t in es if (t, s) in S), len(es))
                    want_s[k] = Fraction(sum(1 for s, t in es if all(any((j, i) in reach for j in t) for i in s)), len(es))
                    want_w[k] = Fraction(sum(1 for s, t in es if any((j, i) in reach for i in s for j in t)), len(es))
                res = {}
                for name, fn, want in (("exact", exact_reciprocity, want_e), ("strong", strong_reciprocity, want_s), ("weak", weak_reciprocity, want_w)):
                    got = q(lambda: fn(h, b))
                    res[name] = got
                    try:
                        ok = sorted(got.keys()) == list(range(2, b + 1)) and all(abs(float(got[k]) - float(want[k])) < 1e-12 and 0 <= got[k] <= 1 for k in want)
                    except Exception:
                        ok = False
                    if not ok:
                        bad("%s_reciprocity" % name, "bound %d: %r, definition %r" % (b, got, {k: str(v) for k, v in want.items()}))
                try:
                    if any(not (res["exact"][k] <= res["strong"][k] + 1e-12 and res["strong"][k] <= res["weak"][k] + 1e-12) for k in range(2, b + 1)):
                        bad("reciprocity-order", "bound %d: exact %r strong %r weak %r" % (b, res["exact"], res["strong"], res["weak"]))
                except Exception:
                    pass
                if any(0 < want_s[k] for k in want_s):
                    acc.nontrivial.add(hash((repr(E), b)))
                acc.outcomes.add(hash(repr((sorted(want_e.items()), sorted(want_s.items()), sorted(want_w.items())))))


def permuted(desc):
    """the same content with its hyperedges listed (hence inserted) in every order - insertion order must not matter"""
    n = len(desc["edges"])
    for perm in itertools.permutations(range(n)):
        if list(perm) == list(range(n)):
            continue
        d = dict(desc)
        d["edges"] = tuple(desc["edges"][i] for i in perm)
        if desc["weights"]:
            d["weights"] = tuple(desc["weights"][i] for i in perm)
        yield d


def corpus(tier):
    # every insertion order of up to three hyperedges over four nodes (shapes with 2-node sources/targets included)
    for d in C.directed_contents((1, 2, 3, 4), max_edges=3, min_edges=3, weighted=(False,), md_styles=(0,), max_size=3):
        if tier != "quick" or any(len(s) > 1 for s, t in d["edges"]):
            if tier != "quick" or hash(d["edges"]) % 6 == 0:
                yield from permuted(d)
    yield from C.directed_contents((1, 2, 3), isolated=(9,), max_edges=2, min_edges=1, weighted=(True,), md_styles=(0,))
    if tier == "quick":
        yield from C.directed_contents((1, 2, 3), isolated=(9,), max_edges=4, weighted=(False,), md_styles=(0,))
        yield from C.directed_contents((2, 5, 7, 11), max_edges=2, weighted=(False,), md_styles=(0,))
    else:
        yield from C.directed_contents((1, 2, 3), isolated=(9,), max_edges=12, weighted=(False,), md_styles=(0,))
        yield from C.directed_contents((2, 5, 7, 11), max_edges=3, weighted=(False,), md_styles=(0,))
    # selected shapes over 5-6 nodes reaching total size 6
    big = [((1, 2, 3), (4, 5, 6)), ((4, 5, 6), (1, 2, 3)), ((1,), (2, 3, 4, 5, 6)), ((2, 3), (1,)), ((1, 2), (3, 4, 5)), ((3, 4, 5), (1, 2)), ((4,), (1,)), ((6,), (1, 2, 3, 4, 5))]
    for r in range(1, 5 if tier == "quick" else 9):
        for es in itertools.combinations(big, r):
            nodes = tuple(sorted({n for s, t in es for n in s + t}))
            yield {"kind": "D", "nodes": nodes, "edges": es, "weighted": False, "weights": None, "nmd": {}, "emd": {}, "hmd": {}}


def run(ctx):
    items = list(corpus(ctx.tier))
    ev, nt, oc = run_e4(ctx, items, lambda part, acc: [check_one(d, acc) for d in part])
    ctx.part("inputs", contents=len(items))
    ctx.require(len(items) > 800, "corpus too small")
    for i in (0, 1, 2, 3):
        ctx.sample(C.show(items[(ctx.seed + 1 + i * (len(items) // 4)) % len(items)]))
    cov = {
        "evaluations": ev, "distinct_nontrivial": len(nt), "exhaustive": True, "inputs": len(items), "distinct_outcomes": len(oc),
        "rule": "every DirectedHypergraph over 3 nodes (+ an isolated node) with <=4 hyperedges (quick) / all 2^12 (thorough), every one over {2,5,7,11} with <=2/3 "
                "hyperedges, and all sub-families of 8 shapes over 6 nodes reaching total size 6; x every degree filter, x every bound 2..6 and None (including "
                "bounds below the largest hyperedge); direct and detour builds. Reciprocities compared in exact rational arithmetic. Non-trivial = some size "
                "with strong reciprocity > 0 (distinct by edge list and bound).",
    }
    return ctx.finish(cov, assumptions=["definitions as stated in the property (reverse present / every source reached from the targets / some reversed pair), over the size-bounded hyperedge set"])


def replay(witness, key=None):
    from ..e4 import Acc

    acc = Acc()
    check_one(C.from_show(witness["desc"]), acc)
    hit = [v for v in acc.violations if key is None or v.key == key or PROP + "/" + v.key == key]
    for v in hit[:3]:
        print("   " + v.msg[:600])
    return bool(hit)
