"""C09 - matrix / tensor representations equal their definitions under the node mapping (E4, exhaustive)."""
import itertools

import numpy as np

from .. import corpus as C
from ..core import Violation
from ..e4 import run_e4

LEVEL = "exploration"
PROP = "C09"


def dense(m):
    return np.asarray(m.todense()) if hasattr(m, "todense") else np.asarray(m)


def mapping_ok(mapping, nodes):
    """bijection row index <-> node"""
    try:
        return sorted(mapping.keys()) == list(range(len(nodes))) and sorted(mapping.values(), key=repr) == sorted(nodes, key=repr)
    except Exception:
        return False


def by_label(M, mapping):
    M = dense(M)
    out = {}
    for i in range(M.shape[0]):
        for j in range(M.shape[1]):
            if M[i, j] != 0:
                out[(mapping[i], mapping[j])] = float(M[i, j])
    return out


def inc_by_label(M, mapping, edges):
    M = dense(M)
    out = {}
    for i in range(M.shape[0]):
        for e in range(M.shape[1]):
            if M[i, e] != 0:
                out[(mapping[i], edges[e])] = float(M[i, e])
    return out


def adj_def(nodes, edges):
    out = {}
    for e in edges:
        for a, b in itertools.permutations(e, 2):
            out[(a, b)] = out.get((a, b), 0.0) + 1.0
    return out


def check_one(desc, acc):
    import hypergraphx.linalg as L

    kind = desc["kind"]
    base = dict(desc=C.show(desc))
    size = len(desc["edges"]) + len(desc["nodes"])
    if kind == "T":
        return check_temporal(desc, acc, base, size)
    N0, W = desc["nodes"], desc["weighted"]
    variants = [(d, None) for d in (False, True, 2)]
    if N0:
        # second call on the same object after a node removal (cached mappings / stale tables): matrices are computed on the
        # full object first (detour build), then the largest label is removed and everything is computed again
        variants.append((True, max(N0)))
        variants.append((False, min(N0)))
        # the same with the incident hyperedges shrunk instead of dropped, and with a node / a hyperedge on a new node ADDED between
        # the two computations (every way the node set of a live object can change must refresh whatever the first call left behind)
        variants.append((True, ("keep", max(N0))))
        variants.append((False, ("keep", min(N0))))
        variants.append((False, ("add_node", None)))
        variants.append((True, ("add_edge", min(N0))))
    for detour, drop in variants:
        h = C.build(desc, detour=detour)
        N = N0
        if drop is not None:
            try:
                L.binary_incidence_matrix(h, return_mapping=True)
                L.adjacency_matrix(h, return_mapping=True)
                h.get_mapping()
            except Exception:
                pass
            fresh = "zz-new" if any(isinstance(n, str) for n in N0) else max(N0) + 7
            if not isinstance(drop, tuple):
                h.remove_node(drop)
                N = tuple(n for n in N0 if n != drop)
                detour = "%s+remove_node(%r)" % (detour, drop)
            elif drop[0] == "keep":
                if any(tuple(e) == (drop[1],) for e in h.get_edges()):
                    # shrinking the singleton hyperedge (x,) leaves the EMPTY hyperedge () in the container: matrices of a hypergraph
                    # with a hyperedge of size 0 are outside the property (first version of this variant raised a false alarm on a
                    # behaviour-preserving refactoring there, DESIGN section 9)
                    acc.count("keep-variant-skipped-empty-hyperedge")
                    continue
                h.remove_node(drop[1], keep_edges=True)
                N = tuple(n for n in N0 if n != drop[1])
                detour = "%s+remove_node(%r, keep_edges=True)" % (detour, drop[1])
            elif drop[0] == "add_node":
                h.add_node(fresh)
                N = tuple(N0) + (fresh,)
                detour = "%s+add_node(%r)" % (detour, fresh)
            else:
                h.add_edge((drop[1], fresh))
                N = tuple(N0) + (fresh,)
                detour = "%s+add_edge(%r)" % (detour, (drop[1], fresh))
        w = dict(base, detour=detour)
        edges = [tuple(sorted(e)) for e in h.get_edges()]
        wts = {tuple(sorted(e)): h.get_weight(e) for e in h.get_edges()}

        def bad(what, msg):
            acc.violations.append(Violation("%s/%s" % (what, "weighted" if W else "unweighted"), "%s (detour=%s) on %s" % (msg, detour, C.show(desc)), w, size))

        def attempt(what, f):
            acc.evaluations += 1
            try:
                return f()
            except Exception as e:
                bad(what + "/exception", "%s raised %s: %s" % (what, type(e).__name__, str(e)[:120]))
                return None

        # --- full incidence / adjacency ---------------------------------------------------------------
        for src, fB in (("function", lambda: L.binary_incidence_matrix(h, return_mapping=True)), ("method", lambda: h.binary_incidence_matrix(return_mapping=True))):
            r = attempt("binary_incidence_matrix", fB)
            if r is None:
                continue
            B, mp = r
            if not mapping_ok(mp, N) or B.shape != (len(N), len(edges)):
                bad("binary_incidence_matrix/mapping", "mapping %r / shape %r is not a bijection onto nodes %r" % (mp, B.shape, N))
                continue
            want = {(n, e): 1.0 for e in edges for n in e}
            if inc_by_label(B, mp, edges) != want:
                bad("binary_incidence_matrix/entries", "entries %r, definition %r" % (inc_by_label(B, mp, edges), want))
        r = attempt("incidence_matrix", lambda: L.incidence_matrix(h, return_mapping=True))
        if r is not None:
            I, mp = r
            want = {(n, e): float(wts[e]) for e in edges for n in e}
            if not mapping_ok(mp, N) or inc_by_label(I, mp, edges) != want:
                bad("incidence_matrix/entries", "entries %r, definition %r" % (inc_by_label(I, mp, edges) if mapping_ok(mp, N) else mp, want))
        for src, fA in (("function", lambda: L.adjacency_matrix(h, return_mapping=True)), ("method", lambda: h.adjacency_matrix(return_mapping=True))):
            r = attempt("adjacency_matrix", fA)
            if r is None:
                continue
            A, mp = r
            if not mapping_ok(mp, N) or by_label(A, mp) != adj_def(N, edges):
                bad("adjacency_matrix/entries", "entries %r, definition %r" % (by_label(A, mp) if mapping_ok(mp, N) else mp, adj_def(N, edges)))
        r = attempt("dual_random_walk_adjacency", lambda: L.dual_random_walk_adjacency(h, return_mapping=True))
        if r is not None:
            Dm, mp = r
            Dd = dense(Dm)
            want = np.array([[1 if set(e) & set(f) else 0 for f in edges] for e in edges]).reshape(len(edges), len(edges))
            if Dd.shape != want.shape or (Dd != want).any():
                bad("dual_random_walk_adjacency/entries", "got %r, definition %r" % (Dd.tolist(), want.tolist()))
        if edges and max(len(e) for e in edges) >= 2:
            acc.nontrivial.add(hash((repr(edges), W)))
        # --- per-order variants --------------------------------------------------------------------------
        maxo = max((len(e) - 1 for e in edges), default=0)
        for d in (0, 1, 2, 3):
            ed = [e for e in edges if len(e) - 1 == d]
            for keep in (False, True):
                nodes_d = list(N) if keep else sorted({n for e in ed for n in e}, key=repr)
                if not ed and not keep:
                    continue  # an empty sub-hypergraph has no matrix to speak of
                r = attempt("incidence_matrix_by_order", lambda: L.incidence_matrix_by_order(h, d, keep_isolated_nodes=keep, return_mapping=True))
                if r is None:
                    continue
                I, mp = r
                want = {(n, e): float(wts[e]) for e in ed for n in e}
                if not mapping_ok(mp, nodes_d):
                    bad("incidence_matrix_by_order/mapping", "order %d keep=%s: mapping %r vs nodes %r" % (d, keep, mp, nodes_d))
                elif inc_by_label(I, mp, ed) != want:
                    bad("incidence_matrix_by_order/entries", "order %d keep=%s: %r, definition %r" % (d, keep, inc_by_label(I, mp, ed), want))
            if W:
                continue
            r = attempt("adjacency_matrix_by_order", lambda: L.adjacency_matrix_by_order(h, d, return_mapping=True))
            if r is not None:
                A, mp = r
                if not mapping_ok(mp, N) or by_label(A, mp) != adj_def(N, ed):
                    bad("adjacency_matrix_by_order/entries", "order %d: %r, definition %r" % (d, by_label(A, mp) if mapping_ok(mp, N) else mp, adj_def(N, ed)))
            smap = dict(enumerate(sorted(N)))  # the Laplacian returns no mapping: rows follow the sorted labels
            want = {}
            for (a, b), v in adj_def(N, ed).items():
                want[(a, b)] = -v
            for n in N:
                k = sum(1 for e in ed if n in e)
                if k and d:
                    want[(n, n)] = float(d * k)
            r = attempt("laplacian_matrix_by_order", lambda: L.laplacian_matrix_by_order(h, d))
            if r is not None:
                Lm = dense(r)
                if Lm.shape != (len(N), len(N)) or by_label(Lm, smap) != want:
                    bad("laplacian_matrix_by_order/entries", "order %d: %r, definition %r" % (d, by_label(Lm, smap) if Lm.shape == (len(N), len(N)) else Lm.shape, want))
                elif (abs(Lm.sum(axis=1)) > 1e-9).any() or (abs(Lm - Lm.T) > 1e-9).any():
                    bad("laplacian_matrix_by_order/row-sums", "order %d: not symmetric with zero row sums" % d)
            if d <= maxo and d == 1:
                r = attempt("laplacian_matrices_all_orders", lambda: L.laplacian_matrices_all_orders(h))
                if r is not None:
                    ok = sorted(r.keys()) == list(range(1, maxo + 1))
                    if ok:
                        for dd in r:
                            try:
                                ok = ok and (abs(dense(r[dd]) - dense(L.laplacian_matrix_by_order(h, dd))) < 1e-9).all()
                            except Exception:
                                ok = False
                    if not ok:
                        bad("laplacian_matrices_all_orders", "keys %r or entries differ from the per-order Laplacians" % (sorted(r.keys()),))
        # --- tensor --------------------------------------------------------------------------------------------
        if edges and len({len(e) for e in edges}) == 1 and list(N) == list(range(len(N))) and not W:
            r = attempt("adjacency_tensor", lambda: L.adjacency_tensor(h))
            if r is not None:
                k = len(edges[0])
                want = np.zeros((len(N),) * k)
                for e in edges:
                    for p in itertools.permutations(e):
                        want[p] = 1
                if r.shape != want.shape or (r != want).any():
                    bad("adjacency_tensor", "tensor differs from the symmetric indicator")


def check_temporal(desc, acc, base, size):
    import hypergraphx.linalg as L

    for detour in (False, True, 2, "shrink"):
        h = C.build(desc, detour=detour)
        w = dict(base, detour=detour)
        acc.evaluations += 1
        try:
            mats, maps = L.temporal_adjacency_matrix(h, return_mapping=True)
            mats2, maps2 = h.temporal_adjacency_matrix(return_mapping=True)
        except Exception as e:
            acc.violations.append(Violation("temporal_adjacency_matrix/exception", "raised %s: %s on %s" % (type(e).__name__, e, C.show(desc)), w, size))
            continue
        times = sorted({t for t, e in desc["edges"]})
        ok = sorted(mats.keys()) == times and sorted(mats2.keys()) == times
        msg = "times %r vs %r" % (sorted(mats.keys()), times)
        if ok:
            for t in times:
                ed = [tuple(sorted(e)) for tt, e in desc["edges"] if tt == t]
                nodes_t = sorted({n for e in ed for n in e}, key=repr)
                for M, mp in ((mats[t], maps[t]), (mats2[t], maps2[t])):
                    if not mapping_ok(mp, nodes_t) or by_label(M, mp) != adj_def(nodes_t, ed):
                        ok = False
                        msg = "time %r: %r (mapping %r), definition %r" % (t, dense(M).tolist(), mp, adj_def(nodes_t, ed))
        if not ok:
            acc.violations.append(Violation("temporal_adjacency_matrix/entries", "%s on %s" % (msg, C.show(desc)), w, size))
        elif len(times) >= 2:
            acc.nontrivial.add(hash(repr(desc["edges"])))


def corpus(tier):
    me = 3 if tier == "quick" else 4
    yield from C.hypergraph_contents((2, 5, 7, 11), isolated=(), lo=1, hi=4, max_edges=me, md_styles=(0,))
    yield from C.hypergraph_contents((2, 5, 7), isolated=(13,), lo=1, hi=3, max_edges=me, md_styles=(0,))
    yield from C.hypergraph_contents(("a", "b", "c", "d"), isolated=("e",), lo=1, hi=4, max_edges=me - 1, md_styles=(0,))
    # uniform hypergraphs on 0..N-1 for the tensor
    for k in (2, 3):
        for n in (3, 4):
            cands = list(itertools.combinations(range(n), k))
            for r in range(1, min(len(cands), me + 1) + 1):
                for es in itertools.combinations(cands, r):
                    if {x for e in es for x in e} == set(range(n)):
                        yield {"kind": "H", "nodes": tuple(range(n)), "edges": es, "weighted": False, "weights": None, "nmd": {}, "emd": {}, "hmd": {}}
    yield from C.temporal_contents((2, 5, 7), times=(0, 1, 3), lo=1, hi=3, max_edges=2 if tier == "quick" else 3, weighted=(False,), md_styles=(0,))
    yield from C.temporal_contents(("a", "b"), times=(0, 2), isolated=("c",), lo=1, hi=2, max_edges=3, weighted=(False, True), md_styles=(0,))


def run(ctx):
    items = list(corpus(ctx.tier))
    ev, nt, oc = run_e4(ctx, items, lambda part, acc: [check_one(d, acc) for d in part])
    ctx.part("inputs", contents=len(items))
    ctx.require(len(items) > 1000, "corpus too small")
    for i in (0, 1, 2, 3):
        ctx.sample(C.show(items[(ctx.seed + 1 + i * (len(items) // 4)) % len(items)]))
    cov = {
        "evaluations": ev, "distinct_nontrivial": len(nt), "exhaustive": True, "inputs": len(items),
        "rule": "every Hypergraph over {2,5,7,11} (and a string-labelled universe, and one with an isolated node) with <=3 (quick) / <=4 (thorough) "
                "hyperedges of size 1-4, weighted (injective weights) and unweighted, built directly and by a detour history; every matrix function with its "
                "mapping, orders 1-3 present or absent, keep_isolated_nodes in {F,T}; all covering uniform hypergraphs on 0..N-1 (N<=4, k in {2,3}) for the "
                "tensor; TemporalHypergraphs with <=2/3 records. evaluations = matrix computations. Matrices are compared as label-indexed dictionaries "
                "through the returned mapping. Non-trivial = content with a hyperedge of size >= 2 (distinct by edge list and weightedness).",
    }
    return ctx.finish(cov, assumptions=["laplacian_matrix_by_order returns no mapping: rows are read in sorted-label order (what get_mapping documents)"])


def replay(witness, key=None):
    from ..e4 import Acc

    acc = Acc()
    check_one(C.from_show(witness["desc"]), acc)
    hit = [v for v in acc.violations if key is None or v.key == key or PROP + "/" + v.key == key]
    for v in hit[:3]:
        print("   " + v.msg[:600])
    return bool(hit)
