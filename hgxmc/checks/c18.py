"""C18 - random walks are stochastic and stationary; contagion exact when deterministic.

random-walk matrices: E4 (all connected hypergraphs on 0..N-1); sampled walk and contagion: E3 full tree
(every index with positive probability; every outcome of every coin).
"""
import itertools

import numpy as np

from .. import choice as CH
from .. import corpus as C
from ..core import Violation
from ..e4 import run_e4
from .c05 import components

LEVEL = "model_checking"
PROP = "C18"


def mk(nodes, edges):
    from hypergraphx import Hypergraph

    h = Hypergraph()
    for n in nodes:
        h.add_node(n)
    for e in edges:
        h.add_edge(e)
    return h


def check_rw(item, acc):
    import hypergraphx.dynamics.randwalk as RW

    n, edges = item
    nodes = list(range(n))
    h = mk(nodes, edges)
    w = {"kind": "rw", "n": n, "edges": [list(e) for e in edges]}
    size = len(edges)

    def bad(what, msg):
        acc.violations.append(Violation("randwalk/%s" % what, "%s on nodes 0..%d edges %r" % (msg, n - 1, edges), w, size))

    W = np.zeros((n, n))
    for e in edges:
        for i, j in itertools.permutations(e, 2):
            W[i, j] += len(e) - 1
    Kd = W / W.sum(axis=1, keepdims=True)
    acc.evaluations += 1
    try:
        K = np.asarray(RW.transition_matrix(h).todense())
        if K.shape != (n, n) or np.abs(K.sum(axis=1) - 1).max() > 1e-12 or np.abs(K - Kd).max() > 1e-12 or (K < 0).any():
            bad("transition_matrix", "K=%r, definition %r" % (K.tolist(), Kd.tolist()))
    except Exception as e:
        bad("transition_matrix/exception", "raised %s: %s" % (type(e).__name__, e))
        return
    acc.evaluations += 1
    pi_d = np.array([sum((len(e) - 1) ** 2 for e in edges if i in e) for i in range(n)], dtype=float)
    pi_d /= pi_d.sum()
    try:
        pi = np.asarray(RW.RW_stationary_state(h)).reshape(-1)
        if pi.shape != (n,) or not np.isfinite(pi).all() or (pi < -1e-12).any() or abs(pi.sum() - 1) > 1e-9 or np.abs(pi @ Kd - pi).max() > 1e-9 or np.abs(pi - pi_d).max() > 1e-9:
            bad("stationary_state/value", "pi=%r, definition %r" % (pi.tolist(), pi_d.tolist()))
    except Exception as e:
        bad("stationary_state/exception", "raised %s: %s" % (type(e).__name__, e))
    starts = [np.eye(n)[i] for i in range(n)] + [np.ones(n) / n]
    # a start concentrated on one node given with an integer dtype, and one with float32 entries, are probability vectors too
    starts += [np.eye(n, dtype=int)[n - 1], np.eye(n, dtype=np.float32)[0]]
    for s in starts:
        for T in (0, 1, 3):
            acc.evaluations += 1
            tol = 1e-12 if s.dtype != np.float32 else 1e-6
            try:
                dl = RW.random_walk_density(h, s.copy(), T)
                ok = len(dl) == T + 1 and np.abs(np.asarray(dl[0]).reshape(-1) - s).max() < 1e-15
                for a, b in zip(dl, dl[1:]):
                    a, b = np.asarray(a).reshape(-1), np.asarray(b).reshape(-1)
                    ok = ok and np.abs(a @ Kd - b).max() < tol and abs(b.sum() - 1) < tol
                if not ok:
                    bad("random_walk_density", "start %r T=%d: %r" % (s.tolist(), T, [np.asarray(d).tolist() for d in dl]))
            except Exception as e:
                bad("random_walk_density/exception", "raised %s: %s" % (type(e).__name__, e))
    # sampled walk under E3: every index with positive probability
    adj = W > 0
    for s in range(n):
        for T in (1, 2, 3):
            walks = set()

            def run(ch):
                with CH.patched(RW, np=CH.NumpyShim(np, CH.FakeNumpyRandom(ch, np))):
                    return RW.random_walk(h, s, T)

            try:
                for script, res, ch, pruned in acc.explore(run):
                    acc.evaluations += 1
                    res = [int(x) for x in res]
                    walks.add(tuple(res))
                    if len(res) != T + 1 or res[0] != s or any(not adj[a, b] for a, b in zip(res, res[1:])):
                        bad("random_walk/step", "walk %r from %d (script %r) leaves the co-membership relation" % (res, s, script))
            except CH.UnownedRandomness as e:
                raise
            except Exception as e:
                bad("random_walk/exception", "raised %s: %s" % (type(e).__name__, e))
                continue
            want = set()
            frontier = {(s,)}
            for _ in range(T):
                frontier = {wk + (j,) for wk in frontier for j in range(n) if adj[wk[-1], j]}
            if walks != frontier:
                bad("random_walk/reachable-set", "from %d, T=%d: explored walks %d, definition %d" % (s, T, len(walks), len(frontier)))
            acc.outcomes.add(hash((tuple(map(tuple, edges)), s, T, len(walks))))
    if len(edges) >= 2:
        acc.nontrivial.add(hash(("rw", tuple(map(tuple, edges)))))
    # second calls on the SAME object after in-place rewiring (call / mutate in place / call again): every (position, replacement)
    # pair that keeps the hypergraph connected is applied in turn to the object that has already answered every query above, so the
    # node and hyperedge counts never change - a result memoised on the object or on its counts shows as a stale answer.  One
    # hyperedge is then added (counts change) and the queries repeated once more.
    cands = [c for r in range(2, min(n, 4) + 1) for c in itertools.combinations(range(n), r)]
    cur = list(edges)
    steps = [(i, c) for i in range(len(edges)) for c in cands] + [(None, c) for c in cands]
    grown = False
    for i, c in steps:
        if c in cur or (i is None and grown):
            continue
        nxt = cur + [c] if i is None else cur[:i] + [c] + cur[i + 1:]
        if len(components(tuple(range(n)), nxt)) != 1:
            continue
        try:
            if i is not None:
                h.remove_edge(cur[i])
            else:
                grown = True
            h.add_edge(c)
        except Exception as e:
            bad("second-call/mutation-exception", "raised %s: %s" % (type(e).__name__, e))
            return
        cur = nxt
        W2 = np.zeros((n, n))
        for e in cur:
            for a, b in itertools.permutations(e, 2):
                W2[a, b] += len(e) - 1
        K2 = W2 / W2.sum(axis=1, keepdims=True)
        pi2 = np.array([sum((len(e) - 1) ** 2 for e in cur if a in e) for a in range(n)], dtype=float)
        pi2 /= pi2.sum()
        acc.evaluations += 3
        try:
            K = np.asarray(RW.transition_matrix(h).todense())
            pi = np.asarray(RW.RW_stationary_state(h)).reshape(-1)
            dl = RW.random_walk_density(h, np.eye(n)[0], 2)
            if np.abs(K - K2).max() > 1e-12:
                bad("second-call/transition_matrix", "after rewiring %r -> %r in place: K=%r, definition %r" % (list(edges), cur, K.tolist(), K2.tolist()))
            if pi.shape != (n,) or np.abs(pi - pi2).max() > 1e-9:
                bad("second-call/stationary_state", "after rewiring %r -> %r in place: pi=%r, definition %r" % (list(edges), cur, pi.tolist(), pi2.tolist()))
            if len(dl) != 3 or any(np.abs(np.asarray(a).reshape(-1) @ K2 - np.asarray(b).reshape(-1)).max() > 1e-12 for a, b in zip(dl, dl[1:])):
                bad("second-call/random_walk_density", "after rewiring %r -> %r in place: %r" % (list(edges), cur, [np.asarray(d).tolist() for d in dl]))
        except Exception as e:
            bad("second-call/exception", "raised %s: %s" % (type(e).__name__, e))
            continue
        adj2 = W2 > 0
        walks = set()

        def run2(ch):
            with CH.patched(RW, np=CH.NumpyShim(np, CH.FakeNumpyRandom(ch, np))):
                return RW.random_walk(h, 0, 1)

        try:
            for script, res, ch, pruned in acc.explore(run2):
                acc.evaluations += 1
                walks.add(tuple(int(x) for x in res))
        except CH.UnownedRandomness:
            raise
        except Exception as e:
            bad("second-call/random_walk/exception", "raised %s: %s" % (type(e).__name__, e))
            continue
        if walks != {(0, j) for j in range(n) if adj2[0, j]}:
            bad("second-call/random_walk/reachable-set", "after rewiring %r -> %r in place: one-step walks from 0 %r" % (list(edges), cur, sorted(walks)))
        acc.outcomes.add(hash(("second", tuple(cur), len(walks))))


# ---- contagion ------------------------------------------------------------------------------------------
def ref_successors(nodes, pair_nb, tri, inf, beta, beta_D, mu):
    """all possible next infected sets (synchronous update reading the old state)"""
    opts = []
    for v in nodes:
        if v not in inf:
            may = must = False
            if any(u in inf for u in pair_nb[v]):
                may = may or beta > 0
                must = must or beta >= 1
            if any(a in inf and b in inf for a, b in tri[v]):
                may = may or beta_D > 0
                must = must or beta_D >= 1
            opts.append((True,) if must else ((False, True) if may else (False,)))
        else:
            opts.append((False,) if mu >= 1 else ((True, False) if mu > 0 else (True,)))
    out = set()
    for combo in itertools.product(*opts):
        out.add(frozenset(v for v, x in zip(nodes, combo) if x))
    return out


def ref_trajectories(nodes, edges, I0, T, beta, beta_D, mu):
    pair_nb = {v: {u for e in edges if len(e) == 2 and v in e for u in e if u != v} for v in nodes}
    tri = {v: [tuple(u for u in e if u != v) for e in edges if len(e) == 3 and v in e] for v in nodes}
    N = len(nodes)
    start = frozenset(v for v in nodes if I0[v] == 1)
    trajs = {((len(start),), start)}
    for t in range(1, T):
        nxt = set()
        for counts, inf in trajs:
            if len(inf) == 0:
                nxt.add((counts + (0,), inf))
                continue
            for s in ref_successors(nodes, pair_nb, tri, inf, beta, beta_D, mu):
                nxt.add((counts + (len(s),), s))
        trajs = nxt
    return {tuple(c / N for c in counts) for counts, _ in trajs}


def check_contagion(item, acc):
    import hypergraphx.dynamics.contagion as CT

    nodes, edges, I0bits, T, (beta, beta_D, mu) = item
    h = mk(nodes, edges)
    I0 = {v: (I0bits >> i) & 1 for i, v in enumerate(nodes)}
    w = {"kind": "contagion", "nodes": list(nodes), "edges": [list(e) for e in edges], "I0": I0bits, "T": T, "rates": [beta, beta_D, mu]}
    size = len(edges) + T
    N = len(nodes)

    def bad(what, msg):
        acc.violations.append(Violation("contagion/%s" % what, "%s; nodes %r edges %r I0 %r T=%d rates (beta=%s, beta_D=%s, mu=%s)" % (msg, nodes, edges, I0, T, beta, beta_D, mu), w, size))

    def run(ch):
        with CH.patched(CT, np=CH.NumpyShim(np, CH.FakeNumpyRandom(ch, np))):
            return CT.simplicial_contagion(h, dict(I0), T, beta, beta_D, mu)

    seen = set()
    try:
        for script, res, ch, pruned in acc.explore(run, horizon=400):
            acc.evaluations += 1
            if pruned:
                acc.count("contagion-pruned-at-horizon")
                continue
            r = tuple(float(x) for x in res)
            seen.add(r)
            if len(r) != T or any(not (0 <= x <= 1) for x in r) or abs(r[0] - sum(I0.values()) / N) > 1e-15:
                bad("shape", "trajectory %r (script %r)" % (r, script))
            if mu == 0 and any(b < a for a, b in zip(r, r[1:])):
                bad("monotone-mu0", "decreasing trajectory %r with mu=0 (script %r)" % (r, script))
            if beta == 0 and beta_D == 0 and any(b > a for a, b in zip(r, r[1:])):
                bad("monotone-no-infection", "increasing trajectory %r with beta=beta_D=0 (script %r)" % (r, script))
    except CH.UnownedRandomness:
        raise
    except Exception as e:
        bad("exception", "raised %s: %s" % (type(e).__name__, e))
        return
    want = ref_trajectories(nodes, edges, I0, T, beta, beta_D, mu)
    det = all(x in (0, 1) for x in (beta, beta_D, mu))
    if seen != want:
        bad("deterministic-trajectory" if det else "trajectory-set", "trajectories %r, reference %r" % (sorted(seen), sorted(want)))
    acc.outcomes.add(hash((tuple(map(tuple, edges)), I0bits, T, beta, beta_D, mu, len(seen))))
    if len(seen) >= 2 or (det and len(set(next(iter(seen)))) >= 2):
        acc.nontrivial.add(hash((tuple(map(tuple, edges)), I0bits, T, beta, beta_D, mu)))


def connected_hypergraphs(n, max_edges, hi):
    nodes = tuple(range(n))
    cands = [c for r in range(2, hi + 1) for c in itertools.combinations(nodes, r)]
    for r in range(1, max_edges + 1):
        for es in itertools.combinations(cands, r):
            if len(components(nodes, es)) == 1:
                yield ("rw", (n, es))


def contagion_items(tier):
    nodes = (2, 5, 7, 11)
    cands = [c for r in (1, 2, 3, 4) for c in itertools.combinations(nodes, r)]
    core = [(2, 5), (5, 7), (2, 7), (7, 11), (2, 5, 7), (5, 7, 11), (2, 5, 11)]
    if tier == "quick":
        edge_sets = [es for r in (1, 2, 3) for es in itertools.combinations(core, r)]
        edge_sets += [((2, 5), (2, 5, 7), (11,)), ((5, 7), (2, 5, 7), (2, 5, 7, 11))]
        Ts = (1, 2, 3)
    else:
        edge_sets = [es for r in (1, 2, 3, 4) for es in itertools.combinations(core, r)]
        edge_sets += [es for r in (1, 2) for es in itertools.combinations(cands, r)]
        Ts = (1, 2, 3, 4)
    det_rates = list(itertools.product((0, 1), repeat=3))
    sto_rates = [r for r in itertools.product((0, 0.5, 1), repeat=3) if 0.5 in r]
    for es in edge_sets:
        for I0 in range(0, 16):
            for T in Ts:
                for rates in det_rates:
                    yield ("ct", (nodes, es, I0, T, rates))
    # stochastic regime: the coin tree grows fast -> fewer hypergraphs / initial conditions, T <= 3
    sto_sets = edge_sets[: (12 if tier == "quick" else 40)]
    for es in sto_sets:
        for I0 in (1, 3, 5, 6, 15):
            for T in (2, 3):
                for rates in sto_rates:
                    yield ("ct", (nodes, es, I0, T, rates))


def worker(part, acc):
    for kind, item in part:
        if kind == "rw":
            check_rw(item, acc)
        else:
            check_contagion(item, acc)


def run(ctx):
    from ..seams import validate as _validate_seams

    seam_report = _validate_seams(PROP)  # real random sources under a recorder: every API reached must be modelled (else exit 2)
    rw = list(connected_hypergraphs(3, 4, 3)) + list(connected_hypergraphs(4, 3 if ctx.tier == "quick" else 11, 4))
    if ctx.tier == "thorough":
        rw += list(connected_hypergraphs(5, 3, 5))
    ct = list(contagion_items(ctx.tier))
    items = rw + ct
    # interleave so shards balance
    k = ctx.jobs * 8
    shards = [items[i::k] for i in range(k)]
    flat = [it for s in shards for it in s]
    ev, nt, oc = run_e4(ctx, flat, worker, nchunks=k, budget=8000000 if ctx.tier == "quick" else 160000000, config_cap=5000 if ctx.tier == "quick" else 100000)
    ctx.part("inputs", randwalk_hypergraphs=len(rw), contagion_configurations=len(ct), executions=ev)
    ctx.require(len(rw) > 100 and len(ct) > 5000, "corpus too small")
    ctx.sample({"random walk": {"n": rw[(ctx.seed * 5 + 7) % len(rw)][1][0], "edges": [list(e) for e in rw[(ctx.seed * 5 + 7) % len(rw)][1][1]]}})
    c = ct[(ctx.seed * 101 + 13) % len(ct)][1]
    ctx.sample({"contagion": {"nodes": list(c[0]), "edges": [list(e) for e in c[1]], "I0_bits": c[2], "T": c[3], "rates(beta,beta_D,mu)": list(c[4])}})
    cov = {
        "seam_validation": seam_report,
        "states": len(oc), "transitions": ev, "traces_validated_against_impl": ev,
        "evaluations": ev, "distinct_nontrivial": len(nt), "exhaustive": not (ctx.counts.get("configurations-capped-by-budget", 0) or ctx.counts.get("configurations-skipped-budget-exhausted", 0)),
        "configurations_capped_or_skipped_by_execution_budget": ctx.counts.get("configurations-capped-by-budget", 0) + ctx.counts.get("configurations-skipped-budget-exhausted", 0),
        "rule": "random walk: every connected hypergraph on 0..N-1 (N=3 all; N=4 <=3 hyperedges quick / all thorough; N=5 <=3 thorough) - K, stationary state, "
                "densities from every unit vector and the uniform one, and EVERY sampled walk of length <=3 (each np.random.choice answer with p>0 is a branch; "
                "the explored set of walks must equal the set of co-membership walks). Contagion: full coin tree - every np.random.random() comparison is a "
                "binary choice point unless forced by rate 0/1 - for every initial condition over 4 nodes, T<=3(4), every rate triple over {0,1}^3 and the "
                "stochastic triples over {0,.5,1}^3 on a sub-corpus; the set of trajectories of each configuration must equal the set produced by a synchronous "
                "reference (reads old state, writes new). states = distinct (configuration, outcome-set) pairs, transitions = executions.",
        "pruned_at_horizon": ctx.counts.get("contagion-pruned-at-horizon", 0),
    }
    return ctx.finish(cov, assumptions=["np.random inside contagion.py / randwalk.py is only reached through the module-level name np (seam)",
                                        "a uniform draw is only compared with a rate (CoinFloat raises on any other use)"])


def replay(witness, key=None):
    from ..e4 import Acc

    acc = Acc()
    if witness["kind"] == "rw":
        check_rw((witness["n"], tuple(tuple(e) for e in witness["edges"])), acc)
    else:
        check_contagion((tuple(witness["nodes"]), tuple(tuple(e) for e in witness["edges"]), witness["I0"], witness["T"], tuple(witness["rates"])), acc)
    hit = [v for v in acc.violations if key is None or v.key == key or PROP + "/" + v.key == key]
    for v in hit[:3]:
        print("   " + v.msg[:600])
    return bool(hit)
