"""Driver for bounded-exhaustive input enumeration (E4): shard the corpus, merge results deterministically."""
import contextlib
import io
import warnings

from .par import chunks, pmap


class Acc:
    """what a worker returns for its shard"""

    def __init__(self):
        self.violations = []
        self.counts = {}
        self.evaluations = 0
        self.nontrivial = set()
        self.outcomes = set()

    def count(self, k, n=1):
        self.counts[k] = self.counts.get(k, 0) + n

    config_cap = None  # executions one configuration may spend
    budget = None  # executions this shard may spend in choice-point exploration (None = unlimited)
    spent = 0

    def explore(self, run, label=None, **kw):
        """choice-point exploration under the shard's execution budget.  On the code as it stands the budget is several
        times what is needed; it only guarantees termination when a change of the code under test multiplies the number
        of choice points.  Capped or skipped configurations are counted and make the run non-exhaustive."""
        from . import choice as CH

        cap = None if self.budget is None else self.budget - self.spent
        if cap is not None and cap <= 0:
            self.count("configurations-skipped-budget-exhausted")
            return
        if self.config_cap is not None:
            cap = self.config_cap if cap is None else min(cap, self.config_cap)
        stats = {}
        for item in CH.explore(run, max_exec=cap, stats=stats, **kw):
            self.spent += 1
            yield item
        if stats.get("capped"):
            self.count("configurations-capped-by-budget")
            if label is not None:
                self.count("capped: " + str(label)[:120])

    def pack(self):
        return (self.violations, self.counts, self.evaluations, self.nontrivial, self.outcomes)


def raised_in_library(exc):
    """True when the innermost frame of the traceback is library code (hypergraphx/...), not harness code"""
    from .choice import UnownedRandomness
    from .core import HarnessError

    if isinstance(exc, (UnownedRandomness, HarnessError, AssertionError, MemoryError)):
        return False
    tb = exc.__traceback__
    last = None  # the deepest frame that belongs to the harness or to the library (frames of numpy, scipy, ... below it are ignored)
    while tb is not None:
        fn = tb.tb_frame.f_code.co_filename.replace("\\", "/")
        if "/hgxmc/" in fn:
            last = "harness"
        elif "/hypergraphx/" in fn:
            last = "library"
        tb = tb.tb_next
    return last == "library"


def run_e4(ctx, items, worker, nchunks=None, quiet=True, budget=None, config_cap=None):
    """worker(list_of_items, Acc) -> None.  Returns merged (evaluations, nontrivial_set, outcomes_set)."""
    items = list(items)
    parts = chunks(items, nchunks or max(1, ctx.jobs * 6))

    def f(part):
        acc = Acc()
        if budget is not None:
            acc.budget = max(1, budget // len(parts))
        acc.config_cap = config_cap
        warnings.simplefilter("ignore")
        import logging

        logging.disable(logging.CRITICAL)
        def one_by_one():
            from . import corpus as C
            from .core import Violation

            for it in part:
                try:
                    worker([it], acc)
                except C.BuildError as e:
                    # valid public calls that build one of the inputs raised: reported against the property, not as a harness error
                    acc.violations.append(Violation("build/exception", str(e), {"desc": C.show(e.desc), "detour": e.detour if not isinstance(e.detour, tuple) else list(e.detour), "build_error": True},
                                                    len(e.desc.get("edges", ()))))
                except Exception as e:
                    # an exception that escapes a check is a harness error - unless it was raised INSIDE the library by a call the
                    # check makes on every input (and that succeeds on the unchanged tree): then the library is what failed
                    if not raised_in_library(e):
                        raise
                    wit = {"library_exception": True, "item": repr(it)[:2000]}
                    if isinstance(it, dict) and "kind" in it and "edges" in it:
                        wit["desc"] = C.show(it)
                    acc.violations.append(Violation("library-exception/%s" % type(e).__name__, "a library call made by the check raised %s: %s (input %s)" % (type(e).__name__, e, repr(it)[:400]), wit, 0))

        if quiet:
            with contextlib.redirect_stdout(io.StringIO()):
                one_by_one()
        else:
            one_by_one()
        return acc.pack()

    ev = 0
    nontrivial, outcomes = set(), set()
    for viols, counts, e, nt, oc in pmap(f, parts, jobs=ctx.jobs):
        ctx.add_violations(viols)
        ctx.merge_counts(counts)
        ev += e
        nontrivial |= nt
        outcomes |= oc
    return ev, nontrivial, outcomes
