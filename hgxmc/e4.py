"""Driver for bounded-exhaustive input enumeration (E4): shard the corpus, merge results deterministically."""
import contextlib
import io
import warnings

from .par import chunks, pmap


class Acc:
    """what a worker returns for its shard"""

    def __init__(self):
        self.violations = []
        self.counts = {}
        self.evaluations = 0
        self.nontrivial = set()
        self.outcomes = set()

    def count(self, k, n=1):
        self.counts[k] = self.counts.get(k, 0) + n

    def pack(self):
        return (self.violations, self.counts, self.evaluations, self.nontrivial, self.outcomes)


def run_e4(ctx, items, worker, nchunks=None, quiet=True):
    """worker(list_of_items, Acc) -> None.  Returns merged (evaluations, nontrivial_set, outcomes_set)."""
    items = list(items)
    parts = chunks(items, nchunks or max(1, ctx.jobs * 6))

    def f(part):
        acc = Acc()
        warnings.simplefilter("ignore")
        import logging

        logging.disable(logging.CRITICAL)
        if quiet:
            with contextlib.redirect_stdout(io.StringIO()):
                worker(part, acc)
        else:
            worker(part, acc)
        return acc.pack()

    ev = 0
    nontrivial, outcomes = set(), set()
    for viols, counts, e, nt, oc in pmap(f, parts, jobs=ctx.jobs):
        ctx.add_violations(viols)
        ctx.merge_counts(counts)
        ev += e
        nontrivial |= nt
        outcomes |= oc
    return ev, nontrivial, outcomes
