"""E1/E2: explicit-state exploration of the real container classes against the MapModel.

mode "closure" (E2): the state graph of the *model* over the alphabet is computed to a fixpoint;
    every model transition is executed on the implementation from up to `reps` representative
    histories of its source state (representatives differ in their private tables).
mode "histories" (E1): every history up to `depth`; two histories are merged only when model state
    AND a dump of every private table of the implementation coincide.

Both run level-synchronous BFS; the unit of parallel work is "all operations from one
(state, representative history)".
"""
import copy
import hashlib

from .core import Violation, HarnessError
from .models.mapmodel import Reject
from .par import pmap, chunks


# ---------------------------------------------------------------------------------------------
def _fp(x):
    if isinstance(x, dict):
        return ("d", tuple(sorted(((_fp(k), _fp(v)) for k, v in x.items()), key=repr)))
    if isinstance(x, (list, tuple)):
        return (type(x).__name__[0], tuple(_fp(i) for i in x))
    if isinstance(x, (set, frozenset)):
        return ("s", tuple(sorted((_fp(i) for i in x), key=repr)))
    return x


def fingerprint(obj):
    """canonical dump of every attribute; used ONLY to tell implementation states apart"""
    return hashlib.md5(repr(_fp(vars(obj))).encode()).hexdigest()


def build(spec, weighted, hist):
    h = spec.new(weighted)
    for op in hist:
        h = spec.apply(h, op)
    return h


def diff_obs(a, b):
    """first differing item between observations a (impl) and b (model): (item, impl value, model value)"""
    for k in b:
        if k not in a:
            return (k, "<not observable>", b[k])
        if a[k] != b[k]:
            return (k, a[k], b[k])
    for k in a:
        if k not in b:
            return (k, a[k], "<not observable>")
    return None


def qname(item):
    return item.split("(")[0]


def kind_of(iv, mv):
    if iv == ("ERR",):
        return "exception-vs-value"
    if mv == ("ERR",):
        return "value-vs-exception"
    if isinstance(iv, tuple) and isinstance(mv, tuple):
        try:
            si, sm = set(iv), set(mv)
            if si == sm and len(iv) != len(mv):
                return "multiplicity"
            if si < sm:
                return "missing"
            if si > sm:
                return "extra"
        except TypeError:
            pass
    return "wrong-value"


def relation(spec, model, op):
    """argument relation of op to the model state (part of the violation key)"""
    K = spec.kind
    n = op[0]
    try:
        if n in ("add_edge", "remove_edge", "set_weight", "set_edge_metadata", "set_attr_edge", "rm_attr_edge"):
            key = K.key(op[1], op[2])
            rel = "existing" if key in model.edges else "new"
            if n == "add_edge":
                if op[3] is not None:
                    rel += ",weight"
                if op[4] is not None:
                    rel += ",metadata"
            if n == "rm_attr_edge" and key in model.edges:
                rel += ",attr-present" if op[3] in model.edges[key][1] else ",attr-absent"
            if n == "set_weight" and not model.weighted and op[3] != 1:
                rel += ",unweighted"
            return rel
        if n in ("remove_node",):
            if op[1] not in model.nodes:
                return "absent"
            inc = [k for k in model.edges if op[1] in K.nodes_of(k)]
            rel = "keep" if op[2] else "drop"
            if not inc:
                return rel + ",no-edges"
            if op[2]:
                sh = [K.shrink(k, op[1]) for k in inc]
                if any(K.is_empty(s) for s in sh):
                    rel += ",vanishing"
                if any(s in model.edges for s in sh):
                    rel += ",merging"
            return rel
        if n in ("add_node", "set_node_metadata", "set_attr_node", "rm_attr_node"):
            rel = "present" if op[1] in model.nodes else "absent"
            if n == "add_node" and op[2] is not None:
                rel += ",metadata"
            if n == "rm_attr_node" and op[1] in model.nodes:
                rel += ",attr-present" if op[2] in model.nodes[op[1]] else ",attr-absent"
            return rel
        if n == "remove_edges":
            return "all-present" if all(K.key(r, x) in model.edges for r, x in op[1]) else "some-absent"
        if n == "remove_nodes":
            return ("all-present" if all(x in model.nodes for x in op[1]) else "some-absent") + (",keep" if op[2] else ",drop")
        if n == "add_nodes":
            return "metadata" if op[2] is not None else "plain"
        if n == "add_edges":
            m = min(len(op[1]), len(op[2])) if op[2] is not None else len(op[1])
            keys = [K.key(r, op[2][i] if op[2] is not None else None) for i, r in enumerate(op[1][:m])]
            rel = "weights" if op[3] is not None else "plain"
            if (op[2] is not None and len(op[2]) != len(op[1])) or (op[4] is not None and len(op[4]) != len(op[1])):
                rel += ",length-mismatch"
            if op[3] is not None and not model.weighted:
                rel += ",unweighted"
            if len(set(keys)) < len(keys):
                rel += ",repeated"
            if any(k in model.edges for k in keys):
                rel += ",existing"
            return rel
    except Exception:
        return "?"
    return "-"


_MOBS = {}


def _norm(spec, obs, model):
    return spec.normalize(obs, model) if hasattr(spec, "normalize") else obs


def model_obs(spec, model):
    """facade observation of a model state, memoised per worker (pure function of the state)"""
    k = (id(spec), model.canon())
    r = _MOBS.get(k)
    if r is None:
        if len(_MOBS) > 20000:
            _MOBS.clear()
        r = _MOBS[k] = spec.observe(spec.facade(model))
    return r


def check_step(spec, tag, model, impl, pre_obs, op, hist, weighted):
    """Execute one model transition on (a deep copy of) the implementation.

    returns (violation or None, successor or None, flags)
    successor = (model', impl', obs')
    """
    flags = []
    try:
        alts = model.apply(op)
    except Reject:
        alts = None
    impl2 = copy.deepcopy(impl)
    raised = None
    try:
        impl2 = spec.apply(impl2, op)
    except Exception as e:  # noqa
        raised = e
    obs2 = spec.observe(impl2)
    rel = relation(spec, model, op)

    def viol(item, kind, msg):
        key = "%s/%s/%s/%s/%s" % (spec.name, op[0], rel, item, kind)
        w = {"spec": spec.name, "args": spec.args(), "weighted": weighted, "hist": [repr(o) for o in hist], "op": repr(op)}
        return Violation(key, "after %r then %r (weighted=%s): %s" % (list(hist), op, weighted, msg), w, size=len(hist) + 1)

    if alts is None:
        if raised is None:
            d = diff_obs(obs2, pre_obs)
            if d is None:
                flags.append("invalid-op-silently-ignored")
                return None, None, flags
            return viol(qname(d[0]), "invalid-op-changed-state",
                        "operation is meaningless on the abstract state yet changed %s: %r -> %r" % (d[0], d[2], d[1])), None, flags
        d = diff_obs(obs2, pre_obs)
        if d is not None:
            return viol(qname(d[0]), "rejected-op-changed-state",
                        "raised %s but %s changed: %r -> %r" % (type(raised).__name__, d[0], d[2], d[1])), None, flags
        flags.append("rejected-unchanged")
        return None, None, flags
    may_reject = any(a is None for a in alts)
    alts = [a for a in alts if a is not None]
    if raised is not None:
        if may_reject:
            d = diff_obs(obs2, pre_obs)
            if d is None:
                flags.append("lenient-rejection")
                return None, None, flags
            return viol(qname(d[0]), "rejected-op-changed-state",
                        "raised %s but %s changed: %r -> %r" % (type(raised).__name__, d[0], d[2], d[1])), None, flags
        return viol("-", "exception", "raised %s: %s" % (type(raised).__name__, raised)), None, flags
    first = None
    others = []
    for i, alt in enumerate(alts):
        mobs = model_obs(spec, alt)
        d = diff_obs(_norm(spec, obs2, alt), mobs)
        if d is None:
            if i > 0:
                flags.append("lenient-alternative")
            if len(alts) > 1:
                flags.append("lenient-point")
            return None, (alt, impl2, obs2), flags
        if first is None:
            first = d
        else:
            others.append(d)
    item, iv, mv = first
    msg = "%s: implementation %r, reference %r" % (item, iv, mv)
    for d in others:
        msg += "\n(also differs from an accepted alternative outcome at %s: implementation %r, alternative %r)" % d
    return viol(qname(item), kind_of(iv, mv), msg), None, flags


# ---------------------------------------------------------------------------------------------
class Profile:
    def __init__(self, name, spec, weighted, ops, enabled=None, tag=None):
        self.name = name
        self.spec = spec
        self.weighted = weighted
        self.ops = list(ops)
        self.enabled = enabled  # optional predicate (model, op) -> bool  (e.g. weight cap)
        self.tag = tag or name


def _work(profile, mode, items):
    """items: list of (model, hist).  Returns list of per-item results."""
    spec = profile.spec
    out = []
    import contextlib, io, warnings
    warnings.simplefilter("ignore")
    with contextlib.redirect_stdout(io.StringIO()):
        return _work2(profile, mode, items, spec, out)


def _work2(profile, mode, items, spec, out):
    for model, hist in items:
        impl = build(spec, profile.weighted, hist)
        pre = spec.observe(impl)
        d = diff_obs(_norm(spec, pre, model), model_obs(spec, model))
        if d is not None:
            if not hist:
                item, iv, mv = d
                w = {"spec": spec.name, "args": spec.args(), "weighted": profile.weighted, "hist": [], "op": None}
                out.append(([], [Violation("%s/initial/-/%s/%s" % (spec.name, qname(item), kind_of(iv, mv)),
                                           "freshly constructed %s(weighted=%s): %s: implementation %r, reference %r"
                                           % (spec.name, profile.weighted, item, iv, mv), w, size=0)], {"executions": 0}))
                continue
            raise HarnessError("representative history %r does not reproduce its model state: %r" % (hist, d))
        succs, viols = [], []
        counts = {"executions": 0, "disabled": 0}
        for op in profile.ops:
            if profile.enabled is not None and not profile.enabled(model, op):
                counts["disabled"] += 1
                continue
            counts["executions"] += 1
            v, s, flags = check_step(spec, profile.tag, model, impl, pre, op, hist, profile.weighted)
            for f in flags:
                counts[f] = counts.get(f, 0) + 1
            if v is not None:
                viols.append(v)
                counts["pruned-at-divergence"] = counts.get("pruned-at-divergence", 0) + 1
            if s is not None:
                alt, impl2, obs2 = s
                extra = profile.spec.extra_obs(impl2) if hasattr(profile.spec, "extra_obs") else None
                succs.append((alt.canon(), alt, op, fingerprint(impl2), extra))
            else:
                succs.append(None)
        out.append((succs, viols, counts))
    return out


def explore(ctx, profile, mode="closure", reps=3, depth=None, max_states=None, on_state=None):
    """returns dict(states=, transitions=, executions=, levels=, ...). Violations go to ctx."""
    spec = profile.spec
    m0 = spec.model(profile.weighted)
    c0 = m0.canon()
    impl0 = spec.new(profile.weighted)
    fp0 = fingerprint(impl0)
    # state table
    states = {}  # key -> dict(model, reps=[hist], fps=set)
    if mode == "closure":
        states[c0] = {"fps": {fp0}, "n": 1}
    else:
        states[(c0, fp0)] = {"n": 1}
    frontier = [(m0, (), True)]
    model_states = {c0}
    transitions = 0
    executions = 0
    level = 0
    sample_hist = []
    while frontier:
        if depth is not None and level >= depth:
            break
        parts = chunks(frontier, max(1, min(len(frontier), ctx.jobs * 4)))
        results = pmap(lambda items: _work(profile, mode, [(m, h) for m, h, _f in items]), parts, jobs=ctx.jobs)
        nxt = []
        for part, res in zip(parts, results):
            for (model, hist, is_first), (succs, viols, counts) in zip(part, res):
                ctx.add_violations(viols)
                executions += counts.pop("executions")
                ctx.merge_counts({profile.name + ":" + k: v for k, v in counts.items()})
                for s in succs:
                    if is_first:
                        transitions += 1
                    if s is None:
                        continue
                    c, alt, op, fp, extra = s
                    h2 = hist + (op,)
                    if on_state is not None:
                        on_state(c, alt, h2, extra)
                    if mode == "closure":
                        rec = states.get(c)
                        if rec is None:
                            states[c] = {"fps": {fp}, "n": 1}
                            model_states.add(c)
                            nxt.append((alt, h2, True))
                            if len(sample_hist) < 40 and len(h2) >= 3:
                                sample_hist.append(h2)
                        elif fp not in rec["fps"] and rec["n"] < reps:
                            rec["fps"].add(fp)
                            rec["n"] += 1
                            nxt.append((alt, h2, False))
                    else:
                        k = (c, fp)
                        if k not in states:
                            states[k] = {"n": 1}
                            model_states.add(c)
                            nxt.append((alt, h2, True))
                            if len(sample_hist) < 40 and len(h2) >= 3:
                                sample_hist.append(h2)
                if max_states and len(states) > max_states:
                    raise HarnessError("state cap %d exceeded in profile %s" % (max_states, profile.name))
        frontier = nxt
        level += 1
    complete = not frontier
    return {
        "profile": profile.name,
        "mode": mode,
        "states": len(states),
        "model_states": len(model_states),
        "transitions": transitions,
        "executions": executions,
        "levels": level,
        "fixpoint": complete,
        "samples": sample_hist,
        "ops": len(profile.ops),
    }
