"""Container specs: how to drive the real class with an op, how to observe it through the public
API, and the reference ("facade") answers computed from the MapModel.

observe(x) is one function per container that lists the queries of the property statement and
canonicalises their results; it is applied to the real object and to a Facade that answers every
query by definition from the model's plain set/map.  No private attribute is read here.
"""
import copy as _copy
from collections import Counter

from .models.mapmodel import KINDS, MapModel, Reject, cmd, md_of

ERR = ("ERR",)


def q(f):
    try:
        return f()
    except Exception as e:  # exception types are not compared (DESIGN 2.5)
        return ERR


def st(e):
    """canonical display of a plain hyperedge"""
    try:
        return tuple(sorted(e))
    except TypeError:
        return ("?", repr(e))


def ms(xs, f=lambda x: x):
    """multiset of items as a sorted tuple (duplicates stay visible)"""
    try:
        return tuple(sorted((f(x) for x in xs), key=repr))
    except Exception:
        return ("?", repr(xs))


def cdict(d, fk=lambda x: x, fv=lambda x: x):
    if not isinstance(d, dict):
        return ("?", repr(d))
    return tuple(sorted(((fk(k), fv(v)) for k, v in d.items()), key=repr))


def filters(K):
    out = [()]
    for k in range(0, K + 1):
        out.append((("order", k),))
        out.append((("order", k), ("up_to", True)))
    for k in range(1, K + 2):
        out.append((("size", k),))
        out.append((("size", k), ("up_to", True)))
    return out


def nfilters(K):
    return [()] + [(("order", k),) for k in range(0, K + 1)] + [(("size", k),) for k in range(1, K + 2)]


def fname(f):
    return ",".join("%s=%s" % kv for kv in f)


def fmatch(f, size):
    d = dict(f)
    if not d:
        return True
    order = d["order"] if "order" in d else d["size"] - 1
    return (size - 1 <= order) if d.get("up_to") else (size - 1 == order)


# =========================================================================================
# Hypergraph
# =========================================================================================
class HFacade:
    """Definitional answers for the Hypergraph query surface."""

    def __init__(self, m):
        self.m = m

    def _E(self, f=()):
        return [k for k in self.m.edges if fmatch(f, len(k))]

    def get_nodes(self, metadata=False):
        return dict(self.m.nodes) if metadata else list(self.m.nodes)

    def num_nodes(self):
        return len(self.m.nodes)

    def check_node(self, n):
        return n in self.m.nodes

    def check_edge(self, e):
        return frozenset(e) in self.m.edges

    def get_edges(self, metadata=False, **f):
        f = tuple(f.items())
        if metadata:
            return {tuple(sorted(k)): self.m.edges[k][1] for k in self._E(f)}
        return [tuple(sorted(k)) for k in self._E(f)]

    def num_edges(self, **f):
        return len(self._E(tuple(f.items())))

    def get_weights(self, asdict=False, **f):
        d = {tuple(sorted(k)): self.m.edges[k][0] for k in self._E(tuple(f.items()))}
        return d if asdict else list(d.values())

    def get_weight(self, e):
        return self.m.edges[frozenset(e)][0]

    def get_incident_edges(self, n, **f):
        if n not in self.m.nodes:
            raise KeyError(n)
        return [tuple(sorted(k)) for k in self._E(tuple(f.items())) if n in k]

    def get_neighbors(self, n, **f):
        if n not in self.m.nodes:
            raise KeyError(n)
        s = set()
        for k in self._E(tuple(f.items())):
            if n in k:
                s |= k
        s.discard(n)
        return s

    def degree(self, n, **f):
        return len(self.get_incident_edges(n, **f))

    def degree_sequence(self, **f):
        return {n: self.degree(n, **f) for n in self.m.nodes}

    def get_sizes(self):
        return [len(k) for k in self.m.edges]

    def get_orders(self):
        return [len(k) - 1 for k in self.m.edges]

    def distribution_sizes(self):
        return dict(Counter(self.get_sizes()))

    def max_size(self):
        return max(self.get_sizes())

    def max_order(self):
        return self.max_size() - 1

    def is_uniform(self):
        return len(set(self.get_sizes())) <= 1

    def is_weighted(self):
        return self.m.weighted

    def get_node_metadata(self, n):
        return self.m.nodes[n]

    def get_edge_metadata(self, e):
        return self.m.edges[frozenset(e)][1]

    def get_all_nodes_metadata(self):
        return dict(self.m.nodes)

    def get_all_edges_metadata(self):
        return {i: md for i, (w, md) in enumerate(self.m.edges.values())}

    def get_hypergraph_metadata(self):
        return dict(self.m.hmeta)

    def __len__(self):
        return len(self.m.edges)


RESERVED_HM = ("weighted", "type")


def user_hmeta(md):
    if not isinstance(md, dict):
        return ("?", repr(md))
    return cmd({k: v for k, v in md.items() if k not in RESERVED_HM})


class HypergraphSpec:
    name = "Hypergraph"
    kind = KINDS["Hypergraph"]

    def __init__(self, universe, absent, cand_edges=None):
        self.U = tuple(universe)
        self.absent = absent
        K = len(self.U)
        self.K = K
        if cand_edges is None:
            import itertools

            cand_edges = [c for r in range(1, K + 1) for c in itertools.combinations(self.U, r)]
        self.cand = list(cand_edges) + [(self.U[0], absent)]
        self.F = filters(K)
        self.NF = nfilters(K)

    def args(self):
        return {"universe": list(self.U), "absent": self.absent}

    # -- construction --------------------------------------------------------------------
    def new(self, weighted):
        from hypergraphx import Hypergraph

        return Hypergraph(weighted=weighted)

    def model(self, weighted):
        return MapModel(self.kind, weighted)

    def facade(self, m):
        return HFacade(m)

    # -- driving the implementation --------------------------------------------------------
    def apply(self, h, op):
        """apply op to the real object; returns the object to continue with"""
        n = op[0]
        if n == "add_node":
            h.add_node(op[1]) if op[2] is None else h.add_node(op[1], metadata=md_of(op[2]))
        elif n == "add_nodes":
            if op[2] is None:
                h.add_nodes(list(op[1]))
            else:
                h.add_nodes(list(op[1]), metadata={k: md_of(v) for k, v in op[2]})
        elif n == "add_edge":
            _, raw, _x, w, md = op
            kw = {}
            if w is not None:
                kw["weight"] = w
            if md is not None:
                kw["metadata"] = md_of(md)
            h.add_edge(raw, **kw)
        elif n == "add_edges":
            _, raws, _x, ws, mds = op
            kw = {}
            if ws is not None:
                kw["weights"] = list(ws)
            if mds is not None:
                kw["metadata"] = [md_of(x) for x in mds]
            h.add_edges(list(raws), **kw)
        elif n == "remove_edge":
            h.remove_edge(op[1])
        elif n == "remove_edges":
            h.remove_edges([r for r, _x in op[1]])
        elif n == "remove_node":
            h.remove_node(op[1], keep_edges=op[2])
        elif n == "remove_nodes":
            h.remove_nodes(list(op[1]), keep_edges=op[2])
        elif n == "set_weight":
            h.set_weight(op[1], op[3])
        elif n == "set_node_metadata":
            h.set_node_metadata(op[1], md_of(op[2]))
        elif n == "set_edge_metadata":
            h.set_edge_metadata(op[1], md_of(op[3]))
        elif n == "set_attr_node":
            h.set_attr_to_node_metadata(op[1], op[2], op[3])
        elif n == "rm_attr_node":
            h.remove_attr_from_node_metadata(op[1], op[2])
        elif n == "set_attr_edge":
            h.set_attr_to_edge_metadata(op[1], op[3], op[4])
        elif n == "rm_attr_edge":
            h.remove_attr_from_edge_metadata(op[1], op[3])
        elif n == "set_attr_hg":
            h.set_attr_to_hypergraph_metadata(op[1], op[2])
        elif n == "clear":
            h.clear()
        elif n == "copy":
            return h.copy()
        else:
            raise ValueError(op)
        return h

    # -- observation ---------------------------------------------------------------------------
    def observe(self, h):
        is_model = isinstance(h, HFacade)
        if is_model:
            deg = lambda n, **f: h.degree(n, **f)
            degseq = lambda **f: h.degree_sequence(**f)
        else:
            from hypergraphx.measures.degree import degree as _deg, degree_sequence as _dsq

            deg = lambda n, **f: _deg(h, n, **f)
            degseq = lambda **f: _dsq(h, **f)
        o = {}
        nodes = q(lambda: h.get_nodes())
        o["get_nodes"] = ms(nodes) if nodes is not ERR else ERR
        o["get_nodes(metadata=True)"] = q(lambda: cdict(h.get_nodes(metadata=True), fv=cmd))
        o["num_nodes"] = q(h.num_nodes)
        o["is_weighted"] = q(h.is_weighted)
        o["is_uniform"] = q(h.is_uniform)
        o["len"] = q(lambda: len(h))
        o["get_sizes"] = q(lambda: ms(h.get_sizes()))
        o["get_orders"] = q(lambda: ms(h.get_orders()))
        o["distribution_sizes"] = q(lambda: cdict(h.distribution_sizes()))
        if o["len"] not in (0, ERR):
            o["max_size"] = q(h.max_size)
            o["max_order"] = q(h.max_order)
        o["get_all_nodes_metadata"] = q(lambda: cdict(h.get_all_nodes_metadata(), fv=cmd))
        o["get_all_edges_metadata"] = q(lambda: ms(h.get_all_edges_metadata().values(), cmd))
        o["get_hypergraph_metadata"] = q(lambda: user_hmeta(h.get_hypergraph_metadata()))
        for f in self.F:
            kw = dict(f)
            fn = fname(f)
            o["get_edges(%s)" % fn] = q(lambda: ms(h.get_edges(**kw), st))
            o["num_edges(%s)" % fn] = q(lambda: h.num_edges(**kw))
            o["get_weights(%s,asdict)" % fn] = q(lambda: cdict(h.get_weights(asdict=True, **kw), fk=st, fv=wv))
            o["get_weights(%s)" % fn] = q(lambda: ms(h.get_weights(**kw), wv))
        o["get_edges(metadata=True)"] = q(lambda: cdict(h.get_edges(metadata=True), fk=st, fv=cmd))
        for n in self.U + (self.absent,):
            o["check_node(%r)" % (n,)] = q(lambda: h.check_node(n))
        for n in self.U:
            present = nodes is not ERR and n in nodes
            if not present and not is_model:
                # queries on absent nodes: only that they are refused or empty is not specified; skip
                continue
            if not present:
                continue
            o["get_node_metadata(%r)" % (n,)] = q(lambda: cmd(h.get_node_metadata(n)))
            for f in self.NF:
                kw = dict(f)
                fn = fname(f)
                o["get_incident_edges(%r,%s)" % (n, fn)] = q(lambda: ms(h.get_incident_edges(n, **kw), st))
                o["get_neighbors(%r,%s)" % (n, fn)] = q(lambda: ms(set(h.get_neighbors(n, **kw))))
                o["degree(%r,%s)" % (n, fn)] = q(lambda: deg(n, **kw))
        for f in self.NF:
            kw = dict(f)
            o["degree_sequence(%s)" % fname(f)] = q(lambda: cdict(degseq(**kw)))
        for e in self.cand:
            c = q(lambda: h.check_edge(e))
            o["check_edge(%r)" % (e,)] = c
            if c is True:
                o["get_weight(%r)" % (e,)] = q(lambda: wv(h.get_weight(e)))
                o["get_edge_metadata(%r)" % (e,)] = q(lambda: cmd(h.get_edge_metadata(e)))
                if len(e) > 1:
                    r = tuple(reversed(e))
                    o["check_edge(%r)" % (r,)] = q(lambda: h.check_edge(r))
                    o["get_weight(%r)" % (r,)] = q(lambda: wv(h.get_weight(r)))
        return o

    def content(self, h):
        """abstract content as seen through the public API (used by C06/C07 to group states)"""
        return (
            self.name,
            q(h.is_weighted),
            q(lambda: cdict(h.get_nodes(metadata=True), fv=cmd)),
            q(lambda: tuple(sorted(((st(e), wv(h.get_weight(e)), cmd(h.get_edge_metadata(e))) for e in h.get_edges()), key=repr))),
            q(lambda: user_hmeta(h.get_hypergraph_metadata())),
        )


def wv(w):
    """weights are compared with their numeric type (1 vs 1.0 are told apart only by type name)"""
    return (w, type(w).__name__) if not isinstance(w, (int,)) or isinstance(w, bool) else w


def make_spec(name, args):
    cls = {"Hypergraph": HypergraphSpec}[name]
    return cls(tuple(args["universe"]), args["absent"])
