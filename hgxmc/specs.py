"""Container specs: how to drive the real class with an op, how to observe it through the public
API, and the reference ("facade") answers computed from the MapModel.

observe(x) is one function per container that lists the queries of the property statement and
canonicalises their results; it is applied to the real object and to a Facade that answers every
query by definition from the model's plain set/map.  No private attribute is read here.
"""
import copy as _copy
from collections import Counter

from .models.mapmodel import KINDS, MapModel, Reject, cmd, md_of

ERR = ("ERR",)


def q(f):
    try:
        return f()
    except Exception as e:  # exception types are not compared (DESIGN 2.5)
        return ERR


def st(e):
    """canonical display of a plain hyperedge"""
    try:
        return tuple(sorted(e))
    except TypeError:
        return ("?", repr(e))


def ms(xs, f=lambda x: x):
    """multiset of items as a sorted tuple (duplicates stay visible)"""
    try:
        return tuple(sorted((f(x) for x in xs), key=repr))
    except Exception:
        return ("?", repr(xs))


def cdict(d, fk=lambda x: x, fv=lambda x: x):
    if not isinstance(d, dict):
        return ("?", repr(d))
    return tuple(sorted(((fk(k), fv(v)) for k, v in d.items()), key=repr))


def filters(K):
    out = [()]
    for k in range(0, K + 1):
        out.append((("order", k),))
        out.append((("order", k), ("up_to", True)))
    for k in range(1, K + 2):
        out.append((("size", k),))
        out.append((("size", k), ("up_to", True)))
    return out


def nfilters(K):
    return [()] + [(("order", k),) for k in range(0, K + 1)] + [(("size", k),) for k in range(1, K + 2)]


def fname(f):
    return ",".join("%s=%s" % kv for kv in f)


def fmatch(f, size):
    d = dict(f)
    if not d:
        return True
    order = d["order"] if "order" in d else d["size"] - 1
    return (size - 1 <= order) if d.get("up_to") else (size - 1 == order)


# =========================================================================================
# Hypergraph
# =========================================================================================
class HFacade:
    """Definitional answers for the Hypergraph query surface."""

    def __init__(self, m):
        self.m = m

    def _E(self, f=()):
        return [k for k in self.m.edges if fmatch(f, len(k))]

    def get_nodes(self, metadata=False):
        return dict(self.m.nodes) if metadata else list(self.m.nodes)

    def num_nodes(self):
        return len(self.m.nodes)

    def check_node(self, n):
        return n in self.m.nodes

    def check_edge(self, e):
        return frozenset(e) in self.m.edges

    def get_edges(self, metadata=False, **f):
        f = tuple(f.items())
        if metadata:
            return {tuple(sorted(k)): self.m.edges[k][1] for k in self._E(f)}
        return [tuple(sorted(k)) for k in self._E(f)]

    def num_edges(self, **f):
        return len(self._E(tuple(f.items())))

    def get_weights(self, asdict=False, **f):
        d = {tuple(sorted(k)): self.m.edges[k][0] for k in self._E(tuple(f.items()))}
        return d if asdict else list(d.values())

    def get_weight(self, e):
        return self.m.edges[frozenset(e)][0]

    def get_incident_edges(self, n, **f):
        if n not in self.m.nodes:
            raise KeyError(n)
        return [tuple(sorted(k)) for k in self._E(tuple(f.items())) if n in k]

    def get_neighbors(self, n, **f):
        if n not in self.m.nodes:
            raise KeyError(n)
        s = set()
        for k in self._E(tuple(f.items())):
            if n in k:
                s |= k
        s.discard(n)
        return s

    def degree(self, n, **f):
        return len(self.get_incident_edges(n, **f))

    def degree_sequence(self, **f):
        return {n: self.degree(n, **f) for n in self.m.nodes}

    def get_sizes(self):
        return [len(k) for k in self.m.edges]

    def get_orders(self):
        return [len(k) - 1 for k in self.m.edges]

    def distribution_sizes(self):
        return dict(Counter(self.get_sizes()))

    def max_size(self):
        return max(self.get_sizes())

    def max_order(self):
        return self.max_size() - 1

    def is_uniform(self):
        return len(set(self.get_sizes())) <= 1

    def is_weighted(self):
        return self.m.weighted

    def get_node_metadata(self, n):
        return self.m.nodes[n]

    def get_edge_metadata(self, e):
        return self.m.edges[frozenset(e)][1]

    def get_all_nodes_metadata(self):
        return dict(self.m.nodes)

    def get_all_edges_metadata(self):
        return {i: md for i, (w, md) in enumerate(self.m.edges.values())}

    def get_hypergraph_metadata(self):
        return dict(self.m.hmeta)

    def __len__(self):
        return len(self.m.edges)


RESERVED_HM = ("weighted", "type")


def user_hmeta(md):
    if not isinstance(md, dict):
        return ("?", repr(md))
    return cmd({k: v for k, v in md.items() if k not in RESERVED_HM})


class HypergraphSpec:
    name = "Hypergraph"
    kind = KINDS["Hypergraph"]

    def __init__(self, universe, absent, cand_edges=None):
        self.U = tuple(universe)
        self.absent = absent
        K = len(self.U)
        self.K = K
        if cand_edges is None:
            import itertools

            cand_edges = [c for r in range(1, K + 1) for c in itertools.combinations(self.U, r)]
        self.cand = list(cand_edges) + [(self.U[0], absent)]
        self.F = filters(K)
        self.NF = nfilters(K)

    def args(self):
        return {"universe": list(self.U), "absent": self.absent}

    # -- construction --------------------------------------------------------------------
    def new(self, weighted):
        from hypergraphx import Hypergraph

        return Hypergraph(weighted=weighted)

    def model(self, weighted):
        return MapModel(self.kind, weighted)

    def facade(self, m):
        return HFacade(m)

    # -- driving the implementation --------------------------------------------------------
    def apply(self, h, op):
        """apply op to the real object; returns the object to continue with"""
        n = op[0]
        if n == "add_node":
            h.add_node(op[1]) if op[2] is None else h.add_node(op[1], metadata=md_of(op[2]))
        elif n == "add_nodes":
            if op[2] is None:
                h.add_nodes(list(op[1]))
            else:
                h.add_nodes(list(op[1]), metadata={k: md_of(v) for k, v in op[2]})
        elif n == "add_edge":
            _, raw, _x, w, md = op
            kw = {}
            if w is not None:
                kw["weight"] = w
            if md is not None:
                kw["metadata"] = md_of(md)
            h.add_edge(raw, **kw)
        elif n == "add_edges":
            _, raws, _x, ws, mds = op
            kw = {}
            if ws is not None:
                kw["weights"] = list(ws)
            if mds is not None:
                kw["metadata"] = [md_of(x) for x in mds]
            h.add_edges(list(raws), **kw)
        elif n == "remove_edge":
            h.remove_edge(op[1])
        elif n == "remove_edges":
            h.remove_edges([r for r, _x in op[1]])
        elif n == "remove_node":
            h.remove_node(op[1], keep_edges=op[2])
        elif n == "remove_nodes":
            h.remove_nodes(list(op[1]), keep_edges=op[2])
        elif n == "set_weight":
            h.set_weight(op[1], op[3])
        elif n == "set_node_metadata":
            h.set_node_metadata(op[1], md_of(op[2]))
        elif n == "set_edge_metadata":
            h.set_edge_metadata(op[1], md_of(op[3]))
        elif n == "set_attr_node":
            h.set_attr_to_node_metadata(op[1], op[2], op[3])
        elif n == "rm_attr_node":
            h.remove_attr_from_node_metadata(op[1], op[2])
        elif n == "set_attr_edge":
            h.set_attr_to_edge_metadata(op[1], op[3], op[4])
        elif n == "rm_attr_edge":
            h.remove_attr_from_edge_metadata(op[1], op[3])
        elif n == "set_attr_hg":
            h.set_attr_to_hypergraph_metadata(op[1], op[2])
        elif n == "clear":
            h.clear()
        elif n == "copy":
            c = h.copy()
            wreck_original(h, "H")
            return c
        else:
            raise ValueError(op)
        return h

    # -- observation ---------------------------------------------------------------------------
    def observe(self, h):
        is_model = isinstance(h, HFacade)
        if is_model:
            deg = lambda n, **f: h.degree(n, **f)
            degseq = lambda **f: h.degree_sequence(**f)
        else:
            from hypergraphx.measures.degree import degree as _deg, degree_sequence as _dsq

            deg = lambda n, **f: _deg(h, n, **f)
            degseq = lambda **f: _dsq(h, **f)
        o = {}
        nodes = q(lambda: h.get_nodes())
        o["get_nodes"] = ms(nodes) if nodes is not ERR else ERR
        o["get_nodes(metadata=True)"] = q(lambda: cdict(h.get_nodes(metadata=True), fv=cmd))
        o["num_nodes"] = q(h.num_nodes)
        o["is_weighted"] = q(h.is_weighted)
        o["is_uniform"] = q(h.is_uniform)
        o["len"] = q(lambda: len(h))
        o["get_sizes"] = q(lambda: ms(h.get_sizes()))
        o["get_orders"] = q(lambda: ms(h.get_orders()))
        o["distribution_sizes"] = q(lambda: cdict(h.distribution_sizes()))
        if o["len"] not in (0, ERR):
            o["max_size"] = q(h.max_size)
            o["max_order"] = q(h.max_order)
        o["get_all_nodes_metadata"] = q(lambda: cdict(h.get_all_nodes_metadata(), fv=cmd))
        o["get_all_edges_metadata"] = q(lambda: ms(h.get_all_edges_metadata().values(), cmd))
        o["get_hypergraph_metadata"] = q(lambda: user_hmeta(h.get_hypergraph_metadata()))
        for f in self.F:
            kw = dict(f)
            fn = fname(f)
            o["get_edges(%s)" % fn] = q(lambda: ms(h.get_edges(**kw), st))
            o["num_edges(%s)" % fn] = q(lambda: h.num_edges(**kw))
            o["get_weights(%s,asdict)" % fn] = q(lambda: cdict(h.get_weights(asdict=True, **kw), fk=st, fv=wv))
            o["get_weights(%s)" % fn] = q(lambda: ms(h.get_weights(**kw), wv))
        o["get_edges(metadata=True)"] = q(lambda: cdict(h.get_edges(metadata=True), fk=st, fv=cmd))
        for n in self.U + (self.absent,):
            o["check_node(%r)" % (n,)] = q(lambda: h.check_node(n))
        for n in self.U:
            present = nodes is not ERR and n in nodes
            if not present and not is_model:
                # queries on absent nodes: only that they are refused or empty is not specified; skip
                continue
            if not present:
                continue
            o["get_node_metadata(%r)" % (n,)] = q(lambda: cmd(h.get_node_metadata(n)))
            for f in self.NF:
                kw = dict(f)
                fn = fname(f)
                o["get_incident_edges(%r,%s)" % (n, fn)] = q(lambda: ms(h.get_incident_edges(n, **kw), st))
                o["get_neighbors(%r,%s)" % (n, fn)] = q(lambda: ms(set(h.get_neighbors(n, **kw))))
                o["degree(%r,%s)" % (n, fn)] = q(lambda: deg(n, **kw))
        for f in self.NF:
            kw = dict(f)
            o["degree_sequence(%s)" % fname(f)] = q(lambda: cdict(degseq(**kw)))
        for e in self.cand:
            c = q(lambda: h.check_edge(e))
            o["check_edge(%r)" % (e,)] = c
            if c is True:
                o["get_weight(%r)" % (e,)] = q(lambda: wv(h.get_weight(e)))
                o["get_edge_metadata(%r)" % (e,)] = q(lambda: cmd(h.get_edge_metadata(e)))
                if len(e) > 1:
                    r = tuple(reversed(e))
                    o["check_edge(%r)" % (r,)] = q(lambda: h.check_edge(r))
                    o["get_weight(%r)" % (r,)] = q(lambda: wv(h.get_weight(r)))
        return o

    def content(self, h):
        """abstract content as seen through the public API (used by C06/C07 to group states)"""
        return (
            self.name,
            q(h.is_weighted),
            q(lambda: cdict(h.get_nodes(metadata=True), fv=cmd)),
            q(lambda: tuple(sorted(((st(e), wv(h.get_weight(e)), cmd(h.get_edge_metadata(e))) for e in h.get_edges()), key=repr))),
            q(lambda: user_hmeta(h.get_hypergraph_metadata())),
        )


def wreck_original(h, kind):
    """after `c = h.copy()` the original is not needed any more: mutate it as hard as the public API allows, so that any
    structure the copy still shares with it (adjacency lists, metadata dicts, weight tables) shows up in the copy's answers"""
    try:
        nodes = list(h.get_nodes())
        edges = list(h.get_edges())
    except Exception:
        return
    for n in nodes:
        try:
            h.set_attr_to_node_metadata(n, "__wrecked", 1)
        except Exception:
            pass
    for e in edges:
        try:
            if kind == "T":
                h.set_attr_to_edge_metadata(e[1], e[0], "__wrecked", 1)
                if h.is_weighted():
                    h.set_weight(e[1], e[0], 97)
            else:
                h.set_attr_to_edge_metadata(e, "__wrecked", 1)
                if h.is_weighted():
                    h.set_weight(e, 97)
        except Exception:
            pass
    try:
        h.set_attr_to_hypergraph_metadata("__wrecked", 1)
    except Exception:
        pass
    for e in edges:
        try:
            h.remove_edge(e[1], e[0]) if kind == "T" else h.remove_edge(e)
        except Exception:
            pass
    for n in nodes:
        try:
            h.remove_node(n)
        except Exception:
            pass
    try:
        h.clear()
    except Exception:
        pass


def wv(w):
    """weights are compared with their numeric type (1 vs 1.0 are told apart only by type name)"""
    return (w, type(w).__name__) if not isinstance(w, (int,)) or isinstance(w, bool) else w


def make_spec(name, args):
    cls = {"Hypergraph": HypergraphSpec}[name]
    return cls(tuple(args["universe"]), args["absent"])


# =========================================================================================
# DirectedHypergraph
# =========================================================================================
def ds(e):
    try:
        return (tuple(sorted(e[0])), tuple(sorted(e[1])))
    except Exception:
        return ("?", repr(e))


class DFacade:
    def __init__(self, m):
        self.m = m

    def _E(self, f=()):
        return [k for k in self.m.edges if fmatch(f, len(k[0]) + len(k[1]))]

    @staticmethod
    def _k(e):
        return KINDS["DirectedHypergraph"].key(e)

    def get_nodes(self, metadata=False):
        return dict(self.m.nodes) if metadata else list(self.m.nodes)

    def num_nodes(self):
        return len(self.m.nodes)

    def check_node(self, n):
        return n in self.m.nodes

    def check_edge(self, e):
        return self._k(e) in self.m.edges

    def get_edges(self, metadata=False, **f):
        ks = self._E(tuple(f.items()))
        if metadata:
            return {ds(k): self.m.edges[k][1] for k in ks}
        return [ds(k) for k in ks]

    def num_edges(self):
        return len(self.m.edges)

    def get_weights(self, asdict=False, **f):
        d = {ds(k): self.m.edges[k][0] for k in self._E(tuple(f.items()))}
        return d if asdict else list(d.values())

    def get_weight(self, e):
        return self.m.edges[self._k(e)][0]

    def get_sources(self):
        return [tuple(sorted(k[0])) for k in self.m.edges]

    def get_targets(self):
        return [tuple(sorted(k[1])) for k in self.m.edges]

    def _need(self, n):
        if n not in self.m.nodes:
            raise KeyError(n)

    def get_source_edges(self, n, **f):
        self._need(n)
        return [ds(k) for k in self._E(tuple(f.items())) if n in k[0]]

    def get_target_edges(self, n, **f):
        self._need(n)
        return [ds(k) for k in self._E(tuple(f.items())) if n in k[1]]

    def get_incident_edges(self, n, **f):
        return self.get_source_edges(n, **f) + self.get_target_edges(n, **f)

    def get_neighbors(self, n, **f):
        self._need(n)
        s = set()
        for k in self._E(tuple(f.items())):
            if n in k[0] or n in k[1]:
                s |= k[0] | k[1]
        s.discard(n)
        return s

    def degree(self, n, **f):
        return len(self.get_incident_edges(n, **f))

    def in_degree(self, n, **f):
        return len(self.get_source_edges(n, **f))

    def out_degree(self, n, **f):
        return len(self.get_target_edges(n, **f))

    def get_sizes(self):
        return [len(k[0]) + len(k[1]) for k in self.m.edges]

    def get_orders(self):
        return [s - 1 for s in self.get_sizes()]

    def distribution_sizes(self):
        return dict(Counter(self.get_sizes()))

    def max_size(self):
        return max(self.get_sizes())

    def max_order(self):
        return self.max_size() - 1

    def is_uniform(self):
        return len(set(self.get_sizes())) <= 1

    def is_weighted(self):
        return self.m.weighted

    def get_node_metadata(self, n):
        return self.m.nodes[n]

    def get_edge_metadata(self, e):
        return self.m.edges[self._k(e)][1]

    def get_all_nodes_metadata(self):
        return list(self.m.nodes.values())

    def get_all_edges_metadata(self):
        return {i: md for i, (w, md) in enumerate(self.m.edges.values())}

    def get_hypergraph_metadata(self):
        return dict(self.m.hmeta)

    def __len__(self):
        return len(self.m.edges)


class DirectedSpec:
    name = "DirectedHypergraph"
    kind = KINDS["DirectedHypergraph"]

    def __init__(self, universe, absent, cand_edges):
        self.U = tuple(universe)
        self.absent = absent
        self.K = len(self.U)
        self.cand0 = [tuple(e) for e in cand_edges]
        self.cand = self.cand0 + [((self.U[0],), (absent,))]
        self.F = filters(self.K)
        self.NF = nfilters(self.K)

    def args(self):
        return {"universe": list(self.U), "absent": self.absent, "cand": [repr(e) for e in self.cand0]}

    def new(self, weighted):
        from hypergraphx import DirectedHypergraph

        return DirectedHypergraph(weighted=weighted)

    def model(self, weighted):
        return MapModel(self.kind, weighted)

    def facade(self, m):
        return DFacade(m)

    def apply(self, h, op):
        n = op[0]
        if n == "add_node":
            h.add_node(op[1]) if op[2] is None else h.add_node(op[1], metadata=md_of(op[2]))
        elif n == "add_nodes":
            h.add_nodes(list(op[1]))
        elif n == "add_edge":
            _, raw, _x, w, md = op
            kw = {}
            if w is not None:
                kw["weight"] = w
            if md is not None:
                kw["metadata"] = md_of(md)
            h.add_edge(raw, **kw)
        elif n == "add_edges":
            _, raws, _x, ws, mds = op
            kw = {}
            if ws is not None:
                kw["weights"] = list(ws)
            if mds is not None:
                kw["metadata"] = [md_of(x) for x in mds]
            h.add_edges(list(raws), **kw)
        elif n == "remove_edge":
            h.remove_edge(op[1])
        elif n == "remove_edges":
            h.remove_edges([r for r, _x in op[1]])
        elif n == "remove_node":
            h.remove_node(op[1], keep_edges=op[2])
        elif n == "remove_nodes":
            h.remove_nodes(list(op[1]), keep_edges=op[2])
        elif n == "set_weight":
            h.set_weight(op[1], op[3])
        elif n == "set_node_metadata":
            h.set_node_metadata(op[1], md_of(op[2]))
        elif n == "set_edge_metadata":
            h.set_edge_metadata(op[1], md_of(op[3]))
        elif n == "set_attr_node":
            h.set_attr_to_node_metadata(op[1], op[2], op[3])
        elif n == "rm_attr_node":
            h.remove_attr_from_node_metadata(op[1], op[2])
        elif n == "set_attr_edge":
            h.set_attr_to_edge_metadata(op[1], op[3], op[4])
        elif n == "rm_attr_edge":
            h.remove_attr_from_edge_metadata(op[1], op[3])
        elif n == "set_attr_hg":
            h.set_attr_to_hypergraph_metadata(op[1], op[2])
        elif n == "clear":
            h.clear()
        elif n == "copy":
            c = h.copy()
            wreck_original(h, "D")
            return c
        else:
            raise ValueError(op)
        return h

    def observe(self, h):
        is_model = isinstance(h, DFacade)
        if is_model:
            deg = lambda n, **f: h.degree(n, **f)
            ind = lambda n, **f: h.in_degree(n, **f)
            outd = lambda n, **f: h.out_degree(n, **f)
            inseq = lambda: {n: h.in_degree(n) for n in h.get_nodes()}
            outseq = lambda: {n: h.out_degree(n) for n in h.get_nodes()}
        else:
            from hypergraphx.measures.degree import degree as _deg
            from hypergraphx.measures.directed import in_degree, out_degree, in_degree_sequence, out_degree_sequence

            deg = lambda n, **f: _deg(h, n, **f)
            ind = lambda n, **f: in_degree(h, n, **f)
            outd = lambda n, **f: out_degree(h, n, **f)
            inseq = lambda: in_degree_sequence(h)
            outseq = lambda: out_degree_sequence(h)
        o = {}
        nodes = q(lambda: h.get_nodes())
        o["get_nodes"] = ms(nodes) if nodes is not ERR else ERR
        o["get_nodes(metadata=True)"] = q(lambda: cdict(h.get_nodes(metadata=True), fv=cmd))
        o["num_nodes"] = q(h.num_nodes)
        o["is_weighted"] = q(h.is_weighted)
        o["is_uniform"] = q(h.is_uniform)
        o["len"] = q(lambda: len(h))
        o["num_edges"] = q(h.num_edges)
        o["get_sizes"] = q(lambda: ms(h.get_sizes()))
        o["get_orders"] = q(lambda: ms(h.get_orders()))
        o["distribution_sizes"] = q(lambda: cdict(h.distribution_sizes()))
        if o["len"] not in (0, ERR):
            o["max_size"] = q(h.max_size)
            o["max_order"] = q(h.max_order)
        o["get_sources"] = q(lambda: ms(h.get_sources(), st))
        o["get_targets"] = q(lambda: ms(h.get_targets(), st))
        o["get_all_nodes_metadata"] = q(lambda: ms(h.get_all_nodes_metadata(), cmd))
        o["get_all_edges_metadata"] = q(lambda: ms(h.get_all_edges_metadata().values(), cmd))
        o["get_hypergraph_metadata"] = q(lambda: user_hmeta(h.get_hypergraph_metadata()))
        for f in self.F:
            kw = dict(f)
            fn = fname(f)
            o["get_edges(%s)" % fn] = q(lambda: ms(h.get_edges(**kw), ds))
            o["get_weights(%s,asdict)" % fn] = q(lambda: cdict(h.get_weights(asdict=True, **kw), fk=ds, fv=wv))
            o["get_weights(%s)" % fn] = q(lambda: ms(h.get_weights(**kw), wv))
        o["get_edges(metadata=True)"] = q(lambda: cdict(h.get_edges(metadata=True), fk=ds, fv=cmd))
        for n in self.U + (self.absent,):
            o["check_node(%r)" % (n,)] = q(lambda: h.check_node(n))
        for n in self.U:
            if nodes is ERR or n not in nodes:
                continue
            o["get_node_metadata(%r)" % (n,)] = q(lambda: cmd(h.get_node_metadata(n)))
            for f in self.NF:
                kw = dict(f)
                fn = fname(f)
                o["get_source_edges(%r,%s)" % (n, fn)] = q(lambda: ms(h.get_source_edges(n, **kw), ds))
                o["get_target_edges(%r,%s)" % (n, fn)] = q(lambda: ms(h.get_target_edges(n, **kw), ds))
                o["get_incident_edges(%r,%s)" % (n, fn)] = q(lambda: ms(h.get_incident_edges(n, **kw), ds))
                o["get_neighbors(%r,%s)" % (n, fn)] = q(lambda: ms(set(h.get_neighbors(n, **kw))))
                o["degree(%r,%s)" % (n, fn)] = q(lambda: deg(n, **kw))
                o["in_degree(%r,%s)" % (n, fn)] = q(lambda: ind(n, **kw))
                o["out_degree(%r,%s)" % (n, fn)] = q(lambda: outd(n, **kw))
        o["in_degree_sequence"] = q(lambda: cdict(inseq()))
        o["out_degree_sequence"] = q(lambda: cdict(outseq()))
        for e in self.cand:
            c = q(lambda: h.check_edge(e))
            o["check_edge(%r)" % (e,)] = c
            if c is True:
                o["get_weight(%r)" % (e,)] = q(lambda: wv(h.get_weight(e)))
                o["get_edge_metadata(%r)" % (e,)] = q(lambda: cmd(h.get_edge_metadata(e)))
                r = (tuple(reversed(e[0])), tuple(reversed(e[1])))
                if r != e:
                    o["check_edge(%r)" % (r,)] = q(lambda: h.check_edge(r))
                    o["get_weight(%r)" % (r,)] = q(lambda: wv(h.get_weight(r)))
        return o

    def content(self, h):
        return (
            self.name,
            q(h.is_weighted),
            q(lambda: cdict(h.get_nodes(metadata=True), fv=cmd)),
            q(lambda: tuple(sorted(((ds(e), wv(h.get_weight(e)), cmd(h.get_edge_metadata(e))) for e in h.get_edges()), key=repr))),
            q(lambda: user_hmeta(h.get_hypergraph_metadata())),
        )


# =========================================================================================
# TemporalHypergraph
# =========================================================================================
def ts(e):
    try:
        return (e[0], tuple(sorted(e[1])))
    except Exception:
        return ("?", repr(e))


def hg_canon(h, with_nodes=False, with_node_md=False):
    """canonical view of a plain Hypergraph returned by a derivation"""
    try:
        edges = tuple(sorted(((st(e), wv(h.get_weight(e))) for e in h.get_edges()), key=repr))
        out = [bool(h.is_weighted()), edges]
        if with_nodes:
            out.append(ms(h.get_nodes()))
        if with_node_md:
            out.append(cdict(h.get_nodes(metadata=True), fv=cmd))
        return tuple(out)
    except Exception as e:
        return ("?", repr(e))


class _PlainView:
    """a plain hypergraph given by definition (for derived objects)"""

    def __init__(self, weighted, nodes, edges):
        self.w, self.nodes, self.edges = weighted, nodes, edges  # nodes: {n: md}; edges: {frozenset: weight}

    def is_weighted(self):
        return self.w

    def get_edges(self):
        return [tuple(sorted(k)) for k in self.edges]

    def get_weight(self, e):
        return self.edges[frozenset(e)]

    def get_nodes(self, metadata=False):
        return dict(self.nodes) if metadata else list(self.nodes)


class TFacade:
    def __init__(self, m):
        self.m = m

    def _E(self, f=(), window=None):
        out = []
        for k in self.m.edges:
            if window is not None and not (window[0] <= k[0] < window[1]):
                continue
            if fmatch(f, len(k[1])):
                out.append(k)
        return out

    def get_nodes(self, metadata=False):
        return dict(self.m.nodes) if metadata else list(self.m.nodes)

    def num_nodes(self):
        return len(self.m.nodes)

    def check_node(self, n):
        return n in self.m.nodes

    def check_edge(self, e, t):
        return (t, frozenset(e)) in self.m.edges

    def get_edges(self, time_window=None, metadata=False, **f):
        ks = self._E(tuple(f.items()), time_window)
        if metadata:
            return {ts(k): self.m.edges[k][1] for k in ks}
        return [ts(k) for k in ks]

    def num_edges(self, **f):
        return len(self._E(tuple(f.items())))

    def get_weights(self, asdict=False, **f):
        d = {ts(k): self.m.edges[k][0] for k in self._E(tuple(f.items()))}
        return d if asdict else list(d.values())

    def get_weight(self, e, t):
        return self.m.edges[(t, frozenset(e))][0]

    def get_times_for_edge(self, e):
        return [k[0] for k in self.m.edges if k[1] == frozenset(e)]

    def min_time(self):
        return min(k[0] for k in self.m.edges)

    def max_time(self):
        return max(k[0] for k in self.m.edges)

    def _need(self, n):
        if n not in self.m.nodes:
            raise KeyError(n)

    def get_incident_edges(self, n, **f):
        self._need(n)
        return [ts(k) for k in self._E(tuple(f.items())) if n in k[1]]

    def get_neighbors(self, n, **f):
        self._need(n)
        s = set()
        for k in self._E(tuple(f.items())):
            if n in k[1]:
                s |= k[1]
        s.discard(n)
        return s

    def degree(self, n, **f):
        return len(self.get_incident_edges(n, **f))

    def get_sizes(self):
        return [len(k[1]) for k in self.m.edges]

    def get_orders(self):
        return [len(k[1]) - 1 for k in self.m.edges]

    def distribution_sizes(self):
        return dict(Counter(self.get_sizes()))

    def max_size(self):
        return max(self.get_sizes())

    def max_order(self):
        return self.max_size() - 1

    def is_uniform(self):
        return len(set(self.get_sizes())) <= 1

    def is_weighted(self):
        return self.m.weighted

    def get_node_metadata(self, n):
        return self.m.nodes[n]

    def get_edge_metadata(self, e, t):
        return self.m.edges[(t, frozenset(e))][1]

    def get_all_nodes_metadata(self):
        return dict(self.m.nodes)

    def get_all_edges_metadata(self):
        return {i: md for i, (w, md) in enumerate(self.m.edges.values())}

    def get_hypergraph_metadata(self):
        return dict(self.m.hmeta)

    def __len__(self):
        return len(self.m.edges)

    def subhypergraph(self, time_window=None):
        res = {}
        for k, (w, md) in self.m.edges.items():
            if time_window is None or time_window[0] <= k[0] < time_window[1]:
                res.setdefault(k[0], {})[k[1]] = w
        return {t: _PlainView(self.m.weighted, {}, es) for t, es in res.items()}

    def aggregate(self, width):
        if isinstance(width, bool) or not isinstance(width, int) or width <= 0:
            raise TypeError
        if not self.m.edges:
            return {}
        mt = self.max_time()
        out = {}
        for i in range(mt // width + 1):
            es = {}
            for k, (w, md) in self.m.edges.items():
                if i * width <= k[0] < (i + 1) * width:
                    es[k[1]] = (es.get(k[1], 0) + w) if self.m.weighted else 1
            out[i] = _PlainView(self.m.weighted, dict(self.m.nodes), es)
        return out


class TemporalSpec:
    name = "TemporalHypergraph"
    kind = KINDS["TemporalHypergraph"]

    def __init__(self, universe, absent, cand_edges, times=(0, 1, 2)):
        self.U = tuple(universe)
        self.absent = absent
        self.K = len(self.U)
        self.cand0 = [tuple(e) for e in cand_edges]
        self.times = tuple(times)
        self.F = filters(self.K)
        self.NF = nfilters(self.K)
        T = max(self.times) + 1
        self.windows = [(a, b) for a in range(0, T + 1) for b in range(a, T + 1)]
        self.widths = (1, 2, 3, T + 1)

    def args(self):
        return {"universe": list(self.U), "absent": self.absent, "cand": [repr(e) for e in self.cand0], "times": list(self.times)}

    def new(self, weighted):
        from hypergraphx import TemporalHypergraph

        return TemporalHypergraph(weighted=weighted)

    def model(self, weighted):
        return MapModel(self.kind, weighted)

    def facade(self, m):
        return TFacade(m)

    def apply(self, h, op):
        n = op[0]
        if n == "add_node":
            h.add_node(op[1]) if op[2] is None else h.add_node(op[1], metadata=md_of(op[2]))
        elif n == "add_nodes":
            if op[2] is None:
                h.add_nodes(list(op[1]))
            else:
                h.add_nodes(list(op[1]), metadata={k: md_of(v) for k, v in op[2]})
        elif n == "add_edge":
            _, raw, t, w, md = op
            kw = {}
            if w is not None:
                kw["weight"] = w
            if md is not None:
                kw["metadata"] = md_of(md)
            h.add_edge(raw, t, **kw)
        elif n == "add_edges":
            _, raws, ts_, ws, mds = op
            kw = {}
            if ws is not None:
                kw["weights"] = list(ws)
            if mds is not None:
                kw["metadata"] = [md_of(x) for x in mds]
            h.add_edges(list(raws), list(ts_), **kw)
        elif n == "remove_edge":
            h.remove_edge(op[1], op[2])
        elif n == "remove_node":
            h.remove_node(op[1], keep_edges=op[2])
        elif n == "remove_nodes":
            h.remove_nodes(list(op[1]), keep_edges=op[2])
        elif n == "set_weight":
            h.set_weight(op[1], op[2], op[3])
        elif n == "set_node_metadata":
            h.set_node_metadata(op[1], md_of(op[2]))
        elif n == "set_edge_metadata":
            h.set_edge_metadata(op[1], op[2], md_of(op[3]))
        elif n == "set_attr_node":
            h.set_attr_to_node_metadata(op[1], op[2], op[3])
        elif n == "rm_attr_node":
            h.remove_attr_from_node_metadata(op[1], op[2])
        elif n == "set_attr_edge":
            h.set_attr_to_edge_metadata(op[1], op[2], op[3], op[4])
        elif n == "rm_attr_edge":
            h.remove_attr_from_edge_metadata(op[1], op[2], op[3])
        elif n == "set_attr_hg":
            h.set_attr_to_hypergraph_metadata(op[1], op[2])
        elif n == "clear":
            h.clear()
        elif n == "copy":
            c = h.copy()
            wreck_original(h, "T")
            return c
        else:
            raise ValueError(op)
        return h

    def observe(self, h):
        is_model = isinstance(h, TFacade)
        if is_model:
            deg = lambda n, **f: h.degree(n, **f)
        else:
            from hypergraphx.measures.degree import degree as _deg

            deg = lambda n, **f: _deg(h, n, **f)
        o = {}
        nodes = q(lambda: h.get_nodes())
        o["get_nodes"] = ms(nodes) if nodes is not ERR else ERR
        o["get_nodes(metadata=True)"] = q(lambda: cdict(h.get_nodes(metadata=True), fv=cmd))
        o["num_nodes"] = q(h.num_nodes)
        o["is_weighted"] = q(h.is_weighted)
        o["is_uniform"] = q(h.is_uniform)
        o["len"] = q(lambda: len(h))
        o["get_sizes"] = q(lambda: ms(h.get_sizes()))
        o["get_orders"] = q(lambda: ms(h.get_orders()))
        o["distribution_sizes"] = q(lambda: cdict(h.distribution_sizes()))
        nonempty = o["len"] not in (0, ERR)
        if nonempty:
            o["max_size"] = q(h.max_size)
            o["max_order"] = q(h.max_order)
            o["min_time"] = q(h.min_time)
            o["max_time"] = q(h.max_time)
        o["get_all_nodes_metadata"] = q(lambda: cdict(h.get_all_nodes_metadata(), fv=cmd))
        o["get_all_edges_metadata"] = q(lambda: ms(h.get_all_edges_metadata().values(), cmd))
        o["get_hypergraph_metadata"] = q(lambda: user_hmeta(h.get_hypergraph_metadata()))
        for f in self.F:
            kw = dict(f)
            fn = fname(f)
            o["get_edges(%s)" % fn] = q(lambda: ms(h.get_edges(**kw), ts))
            o["num_edges(%s)" % fn] = q(lambda: h.num_edges(**kw))
            o["get_weights(%s,asdict)" % fn] = q(lambda: cdict(h.get_weights(asdict=True, **kw), fk=ts, fv=wv))
            o["get_weights(%s)" % fn] = q(lambda: ms(h.get_weights(**kw), wv))
        o["get_edges(metadata=True)"] = q(lambda: cdict(h.get_edges(metadata=True), fk=ts, fv=cmd))
        for win in self.windows:
            for f in self.NF:
                kw = dict(f)
                o["get_edges(time_window=%r,%s)" % (win, fname(f))] = q(lambda: ms(h.get_edges(time_window=win, **kw), ts))
            o["get_edges(time_window=%r,size=2,up_to)" % (win,)] = q(lambda: ms(h.get_edges(time_window=win, size=2, up_to=True), ts))
            o["subhypergraph(%r)" % (win,)] = q(lambda: cdict(h.subhypergraph(time_window=win), fv=hg_canon))
        o["subhypergraph(None)"] = q(lambda: cdict(h.subhypergraph(), fv=hg_canon))
        if nonempty:
            for w in self.widths:
                o["aggregate(%r)" % (w,)] = q(lambda: cdict(h.aggregate(w), fv=lambda x: hg_canon(x, with_nodes=True, with_node_md=True)))
        for w in (0, -1, 1.5):
            o["aggregate(%r)" % (w,)] = q(lambda: cdict(h.aggregate(w)))
        for n in self.U + (self.absent,):
            o["check_node(%r)" % (n,)] = q(lambda: h.check_node(n))
        for n in self.U:
            if nodes is ERR or n not in nodes:
                continue
            o["get_node_metadata(%r)" % (n,)] = q(lambda: cmd(h.get_node_metadata(n)))
            for f in self.NF:
                kw = dict(f)
                fn = fname(f)
                o["get_incident_edges(%r,%s)" % (n, fn)] = q(lambda: ms(h.get_incident_edges(n, **kw), ts))
                o["get_neighbors(%r,%s)" % (n, fn)] = q(lambda: ms(set(h.get_neighbors(n, **kw))))
                o["degree(%r,%s)" % (n, fn)] = q(lambda: deg(n, **kw))
        for e in self.cand0:
            o["get_times_for_edge(%r)" % (e,)] = q(lambda: ms(h.get_times_for_edge(e)))
            for t in self.times:
                c = q(lambda: h.check_edge(e, t))
                o["check_edge(%r,%r)" % (e, t)] = c
                if c is True:
                    o["get_weight(%r,%r)" % (e, t)] = q(lambda: wv(h.get_weight(e, t)))
                    o["get_edge_metadata(%r,%r)" % (e, t)] = q(lambda: cmd(h.get_edge_metadata(e, t)))
                    if len(e) > 1:
                        r = tuple(reversed(e))
                        o["check_edge(%r,%r)" % (r, t)] = q(lambda: h.check_edge(r, t))
                        o["get_weight(%r,%r)" % (r, t)] = q(lambda: wv(h.get_weight(r, t)))
        o["check_edge(absent)"] = q(lambda: h.check_edge((self.U[0], self.absent), self.times[0]))
        # windows, snapshots and aggregation must leave the temporal object unchanged
        o["unchanged-after-derivations"] = q(lambda: (
            ms(h.get_edges(), ts),
            cdict(h.get_nodes(metadata=True), fv=cmd),
            cdict(h.get_weights(asdict=True), fk=ts, fv=wv),
            cdict(h.get_edges(metadata=True), fk=ts, fv=cmd),
            user_hmeta(h.get_hypergraph_metadata()),
            bool(h.is_weighted()),
        ))
        return o

    def content(self, h):
        return (
            self.name,
            q(h.is_weighted),
            q(lambda: cdict(h.get_nodes(metadata=True), fv=cmd)),
            q(lambda: tuple(sorted(((ts(e), wv(h.get_weight(e[1], e[0])), cmd(h.get_edge_metadata(e[1], e[0]))) for e in h.get_edges()), key=repr))),
            q(lambda: user_hmeta(h.get_hypergraph_metadata())),
        )


# =========================================================================================
# MultiplexHypergraph
# =========================================================================================
def mx(e):
    try:
        return (tuple(sorted(e[0])), e[1])
    except Exception:
        return ("?", repr(e))


class MFacade:
    def __init__(self, m):
        self.m = m

    def get_nodes(self, metadata=False):
        return dict(self.m.nodes) if metadata else list(self.m.nodes)

    def get_edges(self, metadata=False):
        if metadata:
            return {mx(k): md for k, (w, md) in self.m.edges.items()}
        return [mx(k) for k in self.m.edges]

    def is_weighted(self):
        return self.m.weighted

    def get_weight(self, e, layer):
        return self.m.edges[(frozenset(e), layer)][0]

    def get_edge_metadata(self, e, layer):
        return self.m.edges[(frozenset(e), layer)][1]

    def layers_in_use(self):
        return {k[1] for k in self.m.edges}

    def get_incident_edges(self, n, **f):
        if n not in self.m.nodes:
            raise KeyError(n)
        f = tuple(f.items())
        return [mx(k) for k in self.m.edges if n in k[0] and fmatch(f, len(k[0]))]

    def degree(self, n, **f):
        return len(self.get_incident_edges(n, **f))

    def get_hypergraph_metadata(self):
        return dict(self.m.hmeta)

    def aggregated_hypergraph(self):
        es = {}
        for k, (w, md) in self.m.edges.items():
            es[k[0]] = (es.get(k[0], 0) + w) if self.m.weighted else 1
        return _PlainView(self.m.weighted, dict(self.m.nodes), es)

    def edge_overlap(self, e):
        return sum(w for k, (w, md) in self.m.edges.items() if k[0] == frozenset(e))


class MultiplexSpec:
    name = "MultiplexHypergraph"
    kind = KINDS["MultiplexHypergraph"]

    def __init__(self, universe, absent, cand_edges, layers=("a", "b")):
        self.U = tuple(universe)
        self.absent = absent
        self.K = len(self.U)
        self.cand0 = [tuple(e) for e in cand_edges]
        self.layers = tuple(layers)
        self.NF = nfilters(self.K)

    def args(self):
        return {"universe": list(self.U), "absent": self.absent, "cand": [repr(e) for e in self.cand0], "layers": list(self.layers)}

    def new(self, weighted):
        from hypergraphx import MultiplexHypergraph

        return MultiplexHypergraph(weighted=weighted)

    def model(self, weighted):
        return MapModel(self.kind, weighted)

    def facade(self, m):
        return MFacade(m)

    def apply(self, h, op):
        n = op[0]
        if n == "add_node":
            h.add_node(op[1]) if op[2] is None else h.add_node(op[1], metadata=md_of(op[2]))
        elif n == "add_nodes":
            if op[2] is None:
                h.add_nodes(list(op[1]))
            else:
                h.add_nodes(list(op[1]), node_metadata={k: md_of(v) for k, v in op[2]})
        elif n == "add_edge":
            _, raw, layer, w, md = op
            kw = {}
            if w is not None:
                kw["weight"] = w
            if md is not None:
                kw["metadata"] = md_of(md)
            h.add_edge(raw, layer, **kw)
        elif n == "add_edges":
            _, raws, layers, ws, mds = op
            kw = {}
            if ws is not None:
                kw["weights"] = list(ws)
            if mds is not None:
                kw["metadata"] = [md_of(x) for x in mds]
            h.add_edges(list(raws), list(layers), **kw)
        elif n == "remove_edge":
            h.remove_edge((op[1], op[2]))
        elif n == "remove_node":
            h.remove_node(op[1], keep_edges=op[2])
        elif n == "set_weight":
            h.set_weight(op[1], op[2], op[3])
        elif n == "set_attr_node":
            h.set_attr_to_node_metadata(op[1], op[2], op[3])
        elif n == "rm_attr_node":
            h.remove_attr_from_node_metadata(op[1], op[2])
        elif n == "set_attr_edge":
            h.set_attr_to_edge_metadata(op[1], op[2], op[3], op[4])
        elif n == "rm_attr_edge":
            h.remove_attr_from_edge_metadata(op[1], op[2], op[3])
        elif n == "set_attr_hg":
            h.set_attr_to_hypergraph_metadata(op[1], op[2])
        else:
            raise ValueError(op)
        return h

    def observe(self, h):
        is_model = isinstance(h, MFacade)
        if is_model:
            deg = lambda n, **f: h.degree(n, **f)
            overlap = lambda e: h.edge_overlap(e)
            in_use = h.layers_in_use()
            seen = set(h.m.layers)
        else:
            from hypergraphx.measures.degree import degree as _deg
            from hypergraphx.measures.multiplex import edge_overlap

            deg = lambda n, **f: _deg(h, n, **f)
            overlap = lambda e: edge_overlap(h, e)
        o = {}
        nodes = q(lambda: h.get_nodes())
        o["get_nodes"] = ms(nodes) if nodes is not ERR else ERR
        o["get_nodes(metadata=True)"] = q(lambda: cdict(h.get_nodes(metadata=True), fv=cmd))
        o["is_weighted"] = q(h.is_weighted)
        o["get_edges"] = q(lambda: ms(h.get_edges(), mx))
        o["get_edges(metadata=True)"] = q(lambda: cdict(h.get_edges(metadata=True), fk=mx, fv=cmd))
        o["get_hypergraph_metadata"] = q(lambda: user_hmeta(h.get_hypergraph_metadata()))
        # layer registry: must contain every layer in use and nothing never seen (DESIGN 2.5)
        if is_model:
            o["get_existing_layers"] = True
        else:
            o["get_existing_layers"] = q(lambda: set(h.get_existing_layers()))
        for n in self.U:
            if nodes is ERR or n not in nodes:
                continue
            for f in self.NF:
                kw = dict(f)
                fn = fname(f)
                if f == ():
                    o["get_incident_edges(%r)" % (n,)] = q(lambda: ms(h.get_incident_edges(n), mx))
                o["degree(%r,%s)" % (n, fn)] = q(lambda: deg(n, **kw))
        o["degree_sequence"] = q(lambda: cdict(h.degree_sequence() if not is_model else {n: h.degree(n) for n in h.get_nodes()}))
        edges = q(lambda: [mx(e) for e in h.get_edges()])
        for e in self.cand0:
            o["edge_overlap(%r)" % (e,)] = q(lambda: overlap(e))
            for l in self.layers:
                present = edges is not ERR and (tuple(sorted(e)), l) in edges
                if present:
                    o["get_weight(%r,%r)" % (e, l)] = q(lambda: wv(h.get_weight(e, l)))
                    o["get_edge_metadata(%r,%r)" % (e, l)] = q(lambda: cmd(h.get_edge_metadata(e, l)))
                    if len(e) > 1:
                        r = tuple(reversed(e))
                        o["get_weight(%r,%r)" % (r, l)] = q(lambda: wv(h.get_weight(r, l)))
        o["aggregated_hypergraph"] = q(lambda: hg_canon(h.aggregated_hypergraph(), with_nodes=True, with_node_md=True))
        # derivations must leave the multiplex object unchanged (including its hypergraph-level metadata)
        o["unchanged-after-derivations"] = q(lambda: (
            ms(h.get_edges(), mx),
            cdict(h.get_nodes(metadata=True), fv=cmd),
            tuple(sorted((mx(e), wv(h.get_weight(e[0], e[1]))) for e in h.get_edges())),
            user_hmeta(h.get_hypergraph_metadata()),
            "MultiplexHypergraph" if is_model else h.get_hypergraph_metadata().get("type"),
            bool(h.is_weighted()),
        ))
        return o

    def normalize(self, obs_impl, model):
        """the layer registry is compared by bounds, not by equality (DESIGN 2.5)"""
        v = obs_impl.get("get_existing_layers")
        if isinstance(v, set):
            in_use = {k[1] for k in model.edges}
            obs_impl = dict(obs_impl)
            ok = in_use <= v <= set(model.layers)
            obs_impl["get_existing_layers"] = True if ok else (
                "registry", tuple(sorted(v)), "in-use", tuple(sorted(in_use)), "ever-seen", tuple(sorted(model.layers)))
        return obs_impl

    def content(self, h):
        return (
            self.name,
            q(h.is_weighted),
            q(lambda: cdict(h.get_nodes(metadata=True), fv=cmd)),
            q(lambda: tuple(sorted(((mx(e), wv(h.get_weight(e[0], e[1])), cmd(h.get_edge_metadata(e[0], e[1]))) for e in h.get_edges()), key=repr))),
            q(lambda: user_hmeta(h.get_hypergraph_metadata())),
        )


def make_spec(name, args):
    import ast

    if name == "Hypergraph":
        return HypergraphSpec(tuple(args["universe"]), args["absent"])
    cand = [ast.literal_eval(s) for s in args["cand"]]
    if name == "DirectedHypergraph":
        return DirectedSpec(tuple(args["universe"]), args["absent"], cand)
    if name == "TemporalHypergraph":
        return TemporalSpec(tuple(args["universe"]), args["absent"], cand, tuple(args["times"]))
    if name == "MultiplexHypergraph":
        return MultiplexSpec(tuple(args["universe"]), args["absent"], cand, tuple(args["layers"]))
    raise ValueError(name)
