"""Boring reference model shared by the four containers.

State: weighted flag, nodes: {node: metadata dict}, edges: {key: [weight, metadata dict]},
hypergraph metadata (user keys only), and for the multiplex container the set of layers seen.
A *key* is what identifies a hyperedge record in the abstract container:

  Hypergraph          frozenset(nodes)
  DirectedHypergraph  (frozenset(source), frozenset(target))
  TemporalHypergraph  (time, frozenset(nodes))
  MultiplexHypergraph (frozenset(nodes), layer)

No ids, no indices, no adjacency lists.  `apply(op)` returns the list of *acceptable* successor
models (more than one where the property statement leaves the outcome open, DESIGN.md 2.5) or
raises Reject when the operation must be refused and must leave the state unchanged.
"""
import copy
import itertools


class Reject(Exception):
    pass


def md_of(t):
    """ops carry metadata as a tuple of items (hashable); a fresh dict is made per use."""
    return None if t is None else dict(t)


def cmd(md):
    """canonical, hashable form of a metadata dict"""
    if md is None:
        return None
    if not isinstance(md, dict):
        return ("?", repr(md))
    return tuple(sorted((str(k), _cv(v)) for k, v in md.items()))


def _cv(v):
    if isinstance(v, dict):
        return cmd(v)
    if isinstance(v, (list, tuple)):
        return tuple(_cv(x) for x in v)
    return v


class Kind:
    """How a container type identifies its records."""

    name = "Hypergraph"

    def key(self, raw, extra=None):
        return frozenset(raw)

    def nodes_of(self, key):
        return key

    def shrink(self, key, n):
        """key without node n; None when the record cannot exist any more."""
        return frozenset(key - {n})

    def is_empty(self, key):
        return len(self.nodes_of(key)) == 0

    def size(self, key):
        return len(self.nodes_of(key))

    def show(self, key):
        return tuple(sorted(key))


class DirectedKind(Kind):
    name = "DirectedHypergraph"

    def key(self, raw, extra=None):
        s, t = raw
        s = frozenset(s) if isinstance(s, (tuple, list, set, frozenset)) else frozenset((s,))
        t = frozenset(t) if isinstance(t, (tuple, list, set, frozenset)) else frozenset((t,))
        return (s, t)

    def nodes_of(self, key):
        return key[0] | key[1]

    def shrink(self, key, n):
        return (frozenset(key[0] - {n}), frozenset(key[1] - {n}))

    def is_empty(self, key):
        # a directed hyperedge needs a non-empty source and a non-empty target
        return len(key[0]) == 0 or len(key[1]) == 0

    def size(self, key):
        return len(key[0]) + len(key[1])

    def show(self, key):
        return (tuple(sorted(key[0])), tuple(sorted(key[1])))


class TemporalKind(Kind):
    name = "TemporalHypergraph"

    def key(self, raw, extra=None):
        return (extra, frozenset(raw))

    def nodes_of(self, key):
        return key[1]

    def shrink(self, key, n):
        return (key[0], frozenset(key[1] - {n}))

    def show(self, key):
        return (key[0], tuple(sorted(key[1])))


class MultiplexKind(Kind):
    name = "MultiplexHypergraph"

    def key(self, raw, extra=None):
        return (frozenset(raw), extra)

    def nodes_of(self, key):
        return key[0]

    def shrink(self, key, n):
        return (frozenset(key[0] - {n}), key[1])

    def show(self, key):
        return (tuple(sorted(key[0])), key[1])


KINDS = {k.name: k for k in (Kind(), DirectedKind(), TemporalKind(), MultiplexKind())}


class MapModel:
    __slots__ = ("kind", "weighted", "nodes", "edges", "hmeta", "layers", "cleared")

    def __init__(self, kind, weighted=False):
        self.kind = kind
        self.weighted = weighted
        self.nodes = {}
        self.edges = {}
        self.hmeta = {}
        self.layers = frozenset()  # layers ever seen (multiplex)
        self.cleared = False

    def clone(self):
        m = MapModel(self.kind, self.weighted)
        m.nodes = {n: dict(md) for n, md in self.nodes.items()}
        m.edges = {k: [w, dict(md)] for k, (w, md) in self.edges.items()}
        m.hmeta = dict(self.hmeta)
        m.layers = self.layers
        m.cleared = self.cleared
        return m

    def canon(self):
        return (
            self.kind.name,
            self.weighted,
            tuple(sorted(((n, cmd(md)) for n, md in self.nodes.items()), key=repr)),
            tuple(sorted(((self.kind.show(k), w, type(w).__name__, cmd(md)) for k, (w, md) in self.edges.items()), key=repr)),
            cmd(self.hmeta),
            tuple(sorted(self.layers)),
        )

    # ---- primitive steps (mutate self) ---------------------------------------------------
    def _add_node(self, n, md):
        if n not in self.nodes:
            self.nodes[n] = dict(md) if md else {}
            return [self]
        if self.nodes[n] == {} and md:
            # docstring: "if the node is already in the hypergraph, nothing happens";
            # code: empty metadata is filled in.  Both accepted (DESIGN 2.10).
            other = self.clone()
            other.nodes[n] = dict(md)
            return [other, self]
        return [self]

    def _add_edge(self, key, weight, md):
        """returns list of alternative models"""
        if not self.weighted and weight is not None and weight != 1:
            raise Reject("weight on unweighted")
        w = 1 if weight is None else weight
        for n in sorted(self.kind.nodes_of(key), key=repr):
            if n not in self.nodes:
                self.nodes[n] = {}
        if isinstance(self.kind, MultiplexKind):
            self.layers = self.layers | {key[1]}
        if key not in self.edges:
            self.edges[key] = [w if self.weighted else 1, dict(md) if md else {}]
            return [self]
        if self.weighted:
            self.edges[key][0] += w
        new_md = dict(md) if md else {}
        if self.edges[key][1] == new_md:
            return [self]
        # metadata on re-insertion: replaced (what the code does) or kept - statement is silent
        other = self.clone()
        self.edges[key][1] = new_md
        return [self, other]

    def _remove_edge(self, key):
        if key not in self.edges:
            raise Reject("edge absent")
        del self.edges[key]

    def _remove_node(self, n, keep):
        """returns list of alternative models (self mutated is the first)"""
        if n not in self.nodes:
            raise Reject("node absent")
        inc = [k for k in self.edges if n in self.kind.nodes_of(k)]
        inc.sort(key=lambda k: repr(self.kind.show(k)))
        alts = [self]
        if not keep:
            for k in inc:
                del self.edges[k]
        else:
            moved = []
            for k in inc:
                w, md = self.edges.pop(k)
                moved.append((self.kind.shrink(k, n), w, md))
            for nk, w, md in moved:
                nxt = []
                for m in alts:
                    if m.kind.is_empty(nk):
                        # a record shrunk to nothing: dropped, or (non-directed) kept as the empty hyperedge
                        nxt.append(m)
                        if not isinstance(m.kind, DirectedKind):
                            o = m.clone()
                            o._merge(nk, w, md, nxt)
                        continue
                    m._merge(nk, w, md, nxt)
                alts = nxt
        for m in alts:
            del m.nodes[n]
        return alts

    def _merge(self, nk, w, md, out):
        """insert shrunk record (nk, w, md) into self; append resulting alternatives to out"""
        if nk not in self.edges:
            self.edges[nk] = [w if self.weighted else 1, dict(md)]
            out.append(self)
            return
        if self.weighted:
            self.edges[nk][0] += w
        if self.edges[nk][1] == md:
            out.append(self)
            return
        o = self.clone()
        o.edges[nk][1] = dict(md)
        out.append(o)  # metadata of the shrunk record wins (what the code does)
        out.append(self)  # or the existing record's metadata stays

    # ---- operations ------------------------------------------------------------------------
    def apply(self, op):
        """-> list of acceptable successor models; raises Reject. self is never mutated."""
        m = self.clone()
        name = op[0]
        K = self.kind
        if name == "add_node":
            return m._add_node(op[1], md_of(op[2]))
        if name == "add_nodes":
            _, nodes, mdmap = op
            mdmap = None if mdmap is None else dict(mdmap)
            alts = [m]
            for n in nodes:
                if mdmap is not None and n not in mdmap:
                    raise Reject("metadata lacks node")
                nxt = []
                for a in alts:
                    nxt.extend(a._add_node(n, md_of(mdmap[n]) if mdmap is not None else None))
                alts = nxt
            return alts
        if name == "add_edge":
            _, raw, extra, w, md = op
            self._check_extra(extra)
            return m._add_edge(K.key(raw, extra), w, md_of(md))
        if name == "add_edges":
            _, raws, extras, ws, mds = op
            alts = [m]
            if ws is not None and len(ws) != len(raws):
                raise Reject("length mismatch")
            if extras is not None and len(extras) != len(raws):
                raise Reject("length mismatch")
            if mds is not None and len(mds) != len(raws):
                raise Reject("length mismatch")
            for x in (extras or ()):
                self._check_extra(x)
            if ws is not None and not m.weighted:
                # code: becomes weighted; its warning text: weights ignored.  Both accepted.
                a = m.clone()
                a.weighted = True
                alts = [a, m]
            out = []
            keys = [K.key(raw, extras[i] if extras is not None else None) for i, raw in enumerate(raws)]
            nodesets = [frozenset(K.nodes_of(k)) for k in keys]
            if ws is not None and (len(set(keys)) < len(keys)
                                   or (isinstance(K, TemporalKind) and len(set(nodesets)) < len(nodesets))):
                # a weighted batch that repeats a record: adding both or refusing the batch are both
                # acceptable (None = "may be rejected, state unchanged"); DESIGN 2.10
                out.append(None)
            for a in alts:
                cur = [a]
                use_w = ws is not None and a.weighted
                for i, raw in enumerate(raws):
                    nxt = []
                    for c in cur:
                        nxt.extend(c._add_edge(
                            K.key(raw, extras[i] if extras is not None else None),
                            ws[i] if use_w else None,
                            md_of(mds[i]) if mds is not None else None))
                    cur = nxt
                out.extend(cur)
            return out
        if name == "remove_edge":
            m._remove_edge(K.key(op[1], op[2]))
            return [m]
        if name == "remove_edges":
            for raw, extra in op[1]:
                m._remove_edge(K.key(raw, extra))
            return [m]
        if name == "remove_node":
            return m._remove_node(op[1], op[2])
        if name == "remove_nodes":
            alts = [m]
            for n in op[1]:
                nxt = []
                for a in alts:
                    nxt.extend(a._remove_node(n, op[2]))
                alts = nxt
            return alts
        if name == "set_weight":
            _, raw, extra, w = op
            if not m.weighted and w != 1:
                raise Reject("weight on unweighted")
            k = K.key(raw, extra)
            if k not in m.edges:
                raise Reject("edge absent")
            m.edges[k][0] = w
            return [m]
        if name == "set_node_metadata":
            if op[1] not in m.nodes:
                raise Reject("node absent")
            m.nodes[op[1]] = md_of(op[2])
            return [m]
        if name == "set_edge_metadata":
            k = K.key(op[1], op[2])
            if k not in m.edges:
                raise Reject("edge absent")
            m.edges[k][1] = md_of(op[3])
            return [m]
        if name == "set_attr_node":
            if op[1] not in m.nodes:
                raise Reject("node absent")
            m.nodes[op[1]][op[2]] = op[3]
            return [m]
        if name == "rm_attr_node":
            if op[1] not in m.nodes or op[2] not in m.nodes[op[1]]:
                raise Reject("absent")
            del m.nodes[op[1]][op[2]]
            return [m]
        if name == "set_attr_edge":
            k = K.key(op[1], op[2])
            if k not in m.edges:
                raise Reject("edge absent")
            m.edges[k][1][op[3]] = op[4]
            return [m]
        if name == "rm_attr_edge":
            k = K.key(op[1], op[2])
            if k not in m.edges or op[3] not in m.edges[k][1]:
                raise Reject("absent")
            del m.edges[k][1][op[3]]
            return [m]
        if name == "set_attr_hg":
            m.hmeta[op[1]] = op[2]
            return [m]
        if name == "clear":
            m.nodes.clear()
            m.edges.clear()
            o = m.clone()
            m.hmeta = {}
            # hypergraph-level metadata after clear(): emptied or kept (statement silent)
            return [m, o] if o.hmeta else [m]
        if name == "copy":
            return [m]
        raise ValueError("unknown op %r" % (op,))

    def _check_extra(self, extra):
        if isinstance(self.kind, TemporalKind):
            if isinstance(extra, bool) or not isinstance(extra, int) or extra < 0:
                raise Reject("invalid time")
