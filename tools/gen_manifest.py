#!/venv/bin/python
"""Writes /verif/MANIFEST.json from the table below (kept in one place so it stays valid)."""
import json, os

HERE = os.path.dirname(os.path.dirname(os.path.abspath(__file__)))
BASELINE = "cd /repo && /venv/bin/python -m pytest -ra -q -p no:cacheprovider --timeout=900 --continue-on-collection-errors"

MC = "model_checking"
EX = "exploration"

CHECKS = {
    "C01": (MC, "E2+E1", "explicit-state model checking: complete closure of the reference model's state graph over the op alphabet with every transition replayed on the real Hypergraph from up to 3 representative histories, plus all histories to a depth; full public query surface compared after every step",
            "3.C01", "reference model + facade correct; universe of 2-4 nodes, weights capped at 3 in closures; deepcopy forks states faithfully"),
    "C02": (MC, "E2+E1", "explicit-state model checking of DirectedHypergraph: closure of the (source set, target set) map model over the alphabet with every transition replayed on the real class from up to 3 representative histories, plus all histories to a depth; role-specific queries (sources/targets/source edges/target edges/in-out degree) compared after every step",
            "3.C02", "reference model + facade correct; 3 nodes, 6 (quick) / all 12 (thorough) directed hyperedges; weights capped in closures"),
    "C03": (MC, "E2+E1", "explicit-state model checking of TemporalHypergraph: closure over (time, node set) records with every transition replayed on the real class; every time window, every per-time snapshot and every aggregation width compared with the definition after every step; invalid times must be rejected without effect",
            "3.C03", "reference model + facade correct; 2-3 nodes, times {0,1,2}, windows over [0,3], widths 1..4"),
    "C04": (MC, "E2+E1", "explicit-state model checking of MultiplexHypergraph: closure over (node set, layer) records with every transition replayed on the real class; aggregated hypergraph, edge overlap and the layer registry compared after every step, and the multiplex object re-observed after the derivations",
            "3.C04", "reference model + facade correct; 2-3 nodes, layers {a,b}(,c); layer registry compared by bounds (in use <= registry <= ever seen)"),
    "C05": (EX, "E4", "bounded-exhaustive enumeration: every small Hypergraph/DirectedHypergraph content (built directly and by a detour history) x every node subset, orders/sizes list, (order|size, up_to, keep_isolated_nodes), largest component, copy + mutations on either side; results compared with the selection computed by definition; source re-observed after every extraction",
            "3.C05", "expected results computed from the content descriptor; 3-4 nodes + isolated node, <=3 (quick) / <=4 (thorough) hyperedges"),
    "C06": (EX, "E4", "bounded-exhaustive enumeration: every small content of the four container types x {json, binary} x {direct, detour} x {int, str labels} x {plain, JSON-rich metadata}; all .hgr files of a small grammar with comment/blank-line insertions at every position; all small HIF documents; loaded object compared with the saved content / file by definition",
            "3.C06", "files in a per-worker temporary directory; metadata compared modulo the reserved keys weight/time/layer"),
    "C07": (MC, "E1 (content-grouped)", "explicit-state exploration of all four real containers over the C01-C04 alphabets; states grouped by publicly observable content, up to 3-4 representatives with different private tables expanded, (content, hash) recorded for the target of every transition: one hash per content (all histories agree), one content per hash (across types), hashing leaves the content unchanged",
            "3.C07", "content = what the public query API reports, including weights' numeric type and the full hypergraph-level metadata"),
    "C08": (EX, "E4", "bounded-exhaustive enumeration of Hypergraph contents (quick <=4 hyperedges over 4 nodes, thorough all 2^15) x every order/size filter x every node, through methods and module functions; degrees and components compared with counting / union-find by definition; degrees also on Directed/Temporal/Multiplex contents",
            "3.C08", "definitions in hgxmc/checks/c08.py; direct and detour builds"),
    "C09": (EX, "E4", "bounded-exhaustive enumeration of Hypergraph / TemporalHypergraph contents with non-contiguous integer and string labels; every matrix function compared entry-by-entry with its definition as label-indexed dictionaries through the returned mapping (mapping must be a bijection)",
            "3.C09", "laplacian_matrix_by_order returns no mapping: rows read in sorted-label order"),
    "C10": (EX, "E4", "bounded-exhaustive enumeration of Hypergraph and DirectedHypergraph contents x both distance functions x every attainable threshold x weighted; projections compared with incidence definitions in exact rational arithmetic",
            "3.C10", "thresholds are exact rationals p/q, q<=4 (quick) converted to float"),
    "C11": (EX, "E4", "bounded-exhaustive enumeration: all hypergraphs on 4 nodes (order 3 complete; order 4 <=3 hyperedges quick / all 2^11 thorough) and on 5 nodes, census compared class-by-class with brute force over all node subsets and relabellings; directed census checked on every member of every isomorphism class",
            "3.C11", "brute-force oracle; 6 and 171 classes re-derived by the oracle itself"),
    "C12": (EX, "E4", "bounded-exhaustive enumeration of DirectedHypergraph contents x every bound 2..6 x every degree filter; signature and the three reciprocities compared with their definitions in exact rational arithmetic; exact <= strong <= weak checked per size",
            "3.C12", "definitions as stated in the property"),
    "C18": (MC, "E3+E4", "stateless exhaustive exploration of every random answer: (also after every connected in-place rewiring of the same object) every sampled walk of length <=3 (each np.random.choice answer with p>0 is a branch) and the full coin tree of simplicial_contagion (every comparison of a uniform draw with a rate is a binary choice point) for every initial condition, horizon and rate triple; the SET of trajectories per configuration must equal that of a synchronous reference simulation; transition matrix / stationary state / densities on every connected hypergraph on 0..N-1",
            "3.C18", "np.random reached only through the module-level name np (seam); uniform draws only compared (CoinFloat raises otherwise)"),
    "C19": (EX, "E4", "bounded-exhaustive enumeration: contents of the four container types x metadata alphabets x every criteria dictionary x mode x keep_edges against the reference model filtered by definition; SVH tables of every small weighted hypergraph recomputed in exact rational arithmetic (p-values, step-up threshold, validated set)",
            "3.C19", "scipy binom.sf agrees with the exact tail to 1e-9 relative; mp=True on a deterministic subset, run in the parent process"),
    "C20": (EX, "E4+E3", "bounded-exhaustive enumeration: s-/node/sub-hypergraph centralities against networkx/scipy on independently built projections (int and string labels, temporal averages); CEC/HEC on every connected uniform hypergraph x every start vector of a finite menu (scripted through the np.random seam), eigen-equations checked with tolerances derived from the stopping rules, relabelling checked with the permuted start vector",
            "3.C20", "start vectors from a finite menu (alphabet limit); tolerances derived, not tuned"),
    "C13": (MC, "E3", "stateless model checking of the real Markov chains: FULL tree of every random answer (ordered proposal pairs, redraws within a call budget and, deviation-bounded, behind forced runs of 30-3000 rejected redraws, every reshuffle coin) of configuration_model for n_steps<=2(3), both labels, detailed T/F, size/order restriction; directed model deviation-bounded: every placement of <=D effective swaps (each with every node choice) among all 20m proposals; degree / size-multiset oracle on every execution's output",
            "3.C13", "np.random / random reached through module-level names (seams); redraw loop cut by a per-label call budget (rejected redraws leave the chain state unchanged)"),
    "C14": (EX, "E3", "exhaustive enumeration of every answer of every draw of each generator under scripted random sources (k-subsets, coins, a menu for exponential draws), structural contract checked on every execution; seed oracle: random.seed(seed) precedes the first draw, plus the real generator run twice per seed",
            "3.C14", "redraw loops cut by call budgets; exponential draws from a 3-vector menu (alphabet limit)"),
    "C15": (EX, "E4+E3", "bounded-exhaustive enumeration: every ordered sequence of <=3 model sizes in a freshly loaded model module (module-level state) against closed forms; closed forms (Poisson parameters, kappa, expected degrees / sizes, C) against brute force over ALL hyperedges for u on the full grid {0,1/2,1}^(NxK) and every symmetric w over {0,1,2}; fit on small hypergraphs x every configuration x n_iter 1..5 with the initial draw scripted from a menu: supplied parameters bit-identical, finiteness/sign/symmetry, exact Poisson log-likelihood non-decreasing (w_prior>0: known finding, attributed only when the penalised objective still ascends)",
            "3.C15", "polynomial-degree argument extends the grid to all reals only if the implementation is a polynomial in u,w (it uses @,*,sum); EM start values from a finite menu"),
    "C16": (MC, "E3", "stateless model checking of the sampler's chain through its public generator: every ordered pair draw, every reshuffle subset, both outcomes of the MH coin, quantile vectors from a menu; initial hypergraphs and every (degree, size) sequence pair for N=4 with every greedy tie-break; both numpy Generators are handed out by a recording factory so that any consumed draw from an unseeded generator is a violation, confirmed with real samplers",
            "3.C16", "np.random.default_rng reached only via the module-level name np; quantile/Poisson/normal draws from finite menus"),
    "C17": (EX, "E4+E3", "bounded-exhaustive enumeration with a scripted RandomState: the node-update permutation of every EM iteration is a schedule (all N! orders for N<=4, or <=1-2 non-identity orders among all iterations), initial matrices from a menu; shape/sign/isolated rows, maxL bookkeeping, per-realisation ascent, log-likelihood recomputed from its definition by brute-force elementary symmetric polynomials; real generators for determinism, HySC one-hot, and every order of two fits on one object",
            "3.C17", "KMeans(random_state=int) and numpy.linalg deterministic; the Lagrange-multiplier search is observed (not altered) through a class-attribute seam to attribute the known finding"),
}
PENDING = {}
for i in range(1, 21):
    pid = "C%02d" % i
    if pid not in CHECKS:
        PENDING[pid] = "check not built yet in this session (design in DESIGN.md section 3); will be claimed once its harness exists"

TECH = {
    "E2": "explicit-state model checking of the real class: fixpoint closure of a reference model's state graph with every transition replayed on the implementation (conformance), plus all operation histories to a depth; exhaustive within stated bounds, no sampling, no solver",
    "E1": "explicit-state exploration of the real classes: all operation histories over an alphabet, states grouped by observable content, oracle evaluated on every reached state; exhaustive within stated bounds",
    "E3": "stateless model checking of the real code under scripted random sources: every resolution of every random draw (full choice tree, or all executions with <= D deviations from the default answer), oracle on every execution; no sampling",
    "E4": "bounded-exhaustive enumeration of every input (container content built by several histories x every parameter combination) with a definitional oracle; no sampling, no solver",
}

m = {
    "version": 1,
    "setup_cmd": "/venv/bin/python -m compileall -q hgxmc >/dev/null; test -x bin/check",
    "hooks": {
        "guard": "HGX_VERIF",
        "enable": "none needed: every seam is a module-level name replaced from the harness (DESIGN.md 2.8); checks import hypergraphx from /repo's working tree",
        "baseline_off_cmd": BASELINE,
        "source_commits": [],
        "add_only": True,
    },
    "engines": [
        {"name": "E1/E2 container explorer", "path": "hgxmc/explore.py", "serves_properties": ["C01", "C02", "C03", "C04", "C07"],
         "kind_free_text": "explicit-state BFS over the real container classes against a reference map model (closure + conformance replay; depth-bounded histories)"},
        {"name": "E3 choice-point explorer", "path": "hgxmc/choice.py", "serves_properties": ["C13", "C14", "C16", "C17", "C18"],
         "kind_free_text": "stateless exhaustive / deviation-bounded enumeration of every answer of every random draw, scripted through module-level seams"},
        {"name": "seam validation", "path": "hgxmc/seams.py", "serves_properties": ["C13", "C14", "C15", "C16", "C17", "C18", "C20"],
         "kind_free_text": "runs the real function once with the real random source under a recorder; every random API reached must be modelled by the fakes, else the check is a harness error (exit 2)"},
        {"name": "E4 bounded-exhaustive corpora", "path": "hgxmc/corpus.py", "serves_properties": ["C05", "C06", "C08", "C09", "C10", "C11", "C12", "C15", "C19", "C20"],
         "kind_free_text": "every container content over a small universe x every parameter combination, definitional oracles"},
    ],
    "checks": [],
    "not_applicable": [{"property_id": k, "reason": v} for k, v in sorted(PENDING.items())],
    "notes": "bin/check <ID> [--tier quick|thorough] [--replay path]; exit 0 ok, 1 VIOLATION, 2 harness error. Known findings: known_findings.txt.",
}
for pid in sorted(CHECKS):
    level, engine, text, ref, note = CHECKS[pid]
    m["checks"].append({
        "property_id": pid,
        "quick_cmd": "bin/check %s --tier quick" % pid,
        "thorough_cmd": "bin/check %s --tier thorough" % pid,
        "evidence_file": "evidence/%s.json" % pid,
        "replay_cmd_template": "bin/check %s --replay {path}" % pid,
        "engine": engine,
        "level_claimed": {"category": level, "text": text, "design_ref": ref},
        "level_note": note,
        "technique": TECH[engine.split("+")[0].split(" ")[0]],
    })
json.dump(m, open(os.path.join(HERE, "MANIFEST.json"), "w"), indent=1)
print("wrote MANIFEST.json with", len(m["checks"]), "checks")
