#!/venv/bin/python
"""Prints the per-property coverage table (DESIGN.md 7.3) from the evidence files of the last run."""
import json, os
HERE = os.path.dirname(os.path.dirname(os.path.abspath(__file__)))
print("| id | tier | level | states / evaluations | transitions / distinct non-trivial | impl executions | wall s | known findings hit |")
print("|---|---|---|---|---|---|---|---|")
for i in range(1, 21):
    p = os.path.join(HERE, "evidence", "C%02d.json" % i)
    if not os.path.exists(p):
        continue
    d = json.load(open(p)); c = d["coverage"]
    a = c.get("states", c.get("evaluations")); b = c.get("transitions", c.get("distinct_nontrivial"))
    print("| %s | %s | %s | %s | %s | %s | %.0f | %s |" % (d["property_id"], d["tier"], d["level"], a, b, c.get("traces_validated_against_impl", c.get("evaluations")), d["wall_s"], c.get("known_findings_hit", 0)))
