#!/bin/bash
# Re-runs every seeded change against the current checks: applies seeded/<ID>_<name>/patch.diff to /repo, runs the quick check of
# its property once, expects exit 1, restores /repo.  Prints one line per change; exit 1 if any is missed.
cd /verif || exit 2
if [ -n "$(git -C /repo status --porcelain --untracked-files=no)" ]; then echo "refusing: /repo dirty"; exit 2; fi
miss=0
for d in seeded/*/; do
  id=$(basename $d); prop=${id%%_*}
  git -C /repo apply /verif/$d/patch.diff || { echo "$id NOAPPLY"; miss=1; continue; }
  out=$(bin/check $prop 2>&1); rc=$?
  git -C /repo checkout -- .
  echo "$id exit=$rc $(echo "$out" | grep -m1 'key=' | cut -c1-120)"
  [ $rc -eq 1 ] || miss=1
done
exit $miss
