#!/bin/bash
# usage: tools/eval_benign.sh <diff> <check ids...>   - applies a behaviour-preserving refactoring to /repo, runs the quick checks (must all exit 0), restores /repo
diff="$1"; shift
if [ -n "$(git -C /repo status --porcelain --untracked-files=no)" ]; then echo "refusing: /repo dirty"; exit 2; fi
git -C /repo apply "$diff" || { echo "patch does not apply"; exit 2; }
for c in "$@"; do
  out=$(cd /verif && bin/check $c 2>&1); rc=$?
  echo "$c exit=$rc $(echo "$out" | grep -c '^VIOLATION') violations $(echo "$out" | grep '^HARNESS' | head -1 | cut -c1-200)"
  if [ $rc -ne 0 ]; then echo "$out" | grep "key=" | head -5; echo "$out" | grep -A2 "key=" | head -12 | cut -c1-400; fi
done
git -C /repo checkout -- .
