#!/bin/bash
# tools/eval_mutant_wt.sh <PROP> <name> [tier]   -- parallel-safe variant of eval_mutant.py: everything runs against the scratch worktree
# /tmp/mut/wt_<PROP> (HGX_REPO) instead of applying the patch to /repo, so several seeded changes can be evaluated at once.
# Inputs: /tmp/mut/patch_<PROP>.diff, /tmp/mut/demo_<PROP>.py, /tmp/mut/needs_<PROP>.txt.  Output: /verif/seeded/<PROP>_<name>/.
P=$1; N=$2; TIER=${3:-quick}
V="$(cd "$(dirname "$0")/.." && pwd)"; WT=/tmp/mut/wt_$P; PY=/venv/bin/python
cd $WT || exit 2
git checkout -q -- . ; git apply /tmp/mut/patch_$P.diff || { echo "patch does not apply"; exit 2; }
T=$($PY -m pytest -q -p no:cacheprovider --timeout=900 tests 2>&1 | tail -1)
cp /tmp/mut/demo_$P.py $WT/demo_seeded.py
$PY demo_seeded.py >/dev/null 2>&1; W=$?
git checkout -q -- . ; $PY demo_seeded.py >/dev/null 2>&1; WO=$?
git apply /tmp/mut/patch_$P.diff
CONF=false; if echo "$T" | grep -q " passed" && ! echo "$T" | grep -q "failed\|error" && [ $W -ne 0 ] && [ $WO -eq 0 ]; then CONF=true; fi
echo "$P confirm: tests='$T' demo_with=$W demo_without=$WO -> $CONF"
D=$V/seeded/${P}_$N; mkdir -p $D; cp /tmp/mut/patch_$P.diff $D/patch.diff; cp /tmp/mut/demo_$P.py $D/demo.py
RES=""; DET=""
for seed in 0 1; do
  s=$(date +%s)
  out=$(cd $V && HGX_REPO=$WT VERIF_SEED=$seed VERIF_TIER=$TIER bin/check $P --tier $TIER 2>&1); rc=$?
  keys=$(echo "$out" | grep -c "^ *key=")
  echo "$P seed=$seed -> exit $rc keys=$keys $(echo "$out" | grep "^ *key=" | head -3 | tr '\n' ' ')"
  [ $rc -eq 2 ] && echo "$out" | tail -20
  [ $rc -eq 1 ] && DET=$P
  kl=$(echo "$out" | grep "^ *key=" | sed 's/^ *key=//' | head -12 | $PY -c 'import sys,json; print(json.dumps([l.strip() for l in sys.stdin]))')
  RES="$RES\"$P seed=$seed\":{\"exit\":$rc,\"violation_keys\":$kl,\"wall_s\":$(( $(date +%s)-s ))},"
  echo "$out" > /tmp/mut/out_${P}_$seed.txt
done
git checkout -q -- . ; rm -f demo_seeded.py
$PY - "$P" "$N" "$CONF" "$T" "$W" "$WO" "$DET" "{${RES%,}}" <<'PYEOF' > $D/meta.json
import sys, json
p, n, conf, t, w, wo, det, res = sys.argv[1:]
needs = open('/tmp/mut/needs_%s.txt' % p).read().strip()
print(json.dumps({"property": p, "name": n, "needs": needs, "confirmed": conf == "true",
  "ran": [{"cmd": "pytest tests (patch applied, scratch worktree)", "tail": t}, {"cmd": "demo (patch applied)", "exit": int(w)},
          {"cmd": "demo (patch removed)", "exit": int(wo)},
          {"cmd": "bin/check with HGX_REPO=<scratch worktree with the patch applied>, VERIF_SEED 0 and 1"}],
  "checks": json.loads(res), "detected_by": [det] if det else []}, indent=1))
PYEOF
echo "$P stored in $D detected_by=[$DET]"
