#!/venv/bin/python
"""Prints the table of DESIGN.md section 10 from seeded/*/meta.json (what each seeded change needs, which check caught it)."""
import glob, json, os
HERE = os.path.dirname(os.path.dirname(os.path.abspath(__file__)))
print("| seeded change | what it needs in order to manifest | caught by | first violation key |")
print("|---|---|---|---|")
for p in sorted(glob.glob(os.path.join(HERE, "seeded", "*", "meta.json"))):
    m = json.load(open(p))
    name = os.path.basename(os.path.dirname(p))
    keys = [k for c, v in sorted(m.get("checks", {}).items()) if c.startswith(m["property"]) for k in v.get("violation_keys", [])]
    by = ", ".join(m.get("detected_by", [])) or "-"
    print("| %s | %s | %s | `%s` |" % (name, m.get("needs", "").replace("|", "/"), by, keys[0] if keys else "-"))
