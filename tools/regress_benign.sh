#!/bin/bash
# Re-runs every behaviour-preserving refactoring against the current checks: applies benign/<ID>_<name>/refactor.diff to /repo, runs the
# quick check of its property, expects exit 0, restores /repo.  Prints one line per refactoring; exit 1 if any check is not silent.
cd /verif || exit 2
if [ -n "$(git -C /repo status --porcelain --untracked-files=no)" ]; then echo "refusing: /repo dirty"; exit 2; fi
bad=0
for d in benign/*/; do
  id=$(basename $d); prop=${id%%_*}
  git -C /repo apply /verif/$d/refactor.diff || { echo "$id NOAPPLY"; bad=1; continue; }
  out=$(bin/check $prop 2>&1); rc=$?
  git -C /repo checkout -- .
  echo "$id exit=$rc $(echo "$out" | grep -m1 'key=\|^HARNESS' | cut -c1-160)"
  [ $rc -eq 0 ] || bad=1
done
exit $bad
